package main

import (
	"fmt"
	"math"
	"strconv"
	"strings"
	"time"

	tally "github.com/uber-go/tally/v4"
)

func init() { register("c01", "C01", "c01", suiteC01) }

type c01Scenario struct {
	name     string
	cached   bool
	hist     bool // histogram with one bound -> two cells
	incs     []int64
	incCell  []int // for hist: which bucket each increment goes to
	visitors int
}

func c01ParkOn(l string) bool {
	return strings.HasPrefix(l, "counter.value") || l == "counter.deliver" || l == "histogram.deliver"
}

// one execution of a scenario under a chooser; returns a textual trace (for samples / replay)
func runC01(c *Ctx, sc c01Scenario, ch Chooser) (trace []string, failed bool) {
	var logp *Log
	opts := tally.ScopeOptions{OmitCardinalityMetrics: true}
	if sc.cached {
		rc := newRecCached()
		opts.CachedReporter = rc
		logp = rc.log
	} else {
		rp := newRec()
		opts.Reporter = rp
		logp = rp.log
	}
	root, closer := tally.VerifNewRootScope(opts, 0, 1)
	ncells := 1
	var ctr tally.Counter
	var hist tally.Histogram
	if sc.hist {
		ncells = 2
		hist = root.Histogram("h", tally.ValueBuckets{10})
	} else {
		ctr = root.Counter("c")
	}
	logp.Take()
	d := c.Drv
	say := func(line string) bool {
		trace = append(trace, line)
		rep := d.Ask(line)
		if rep == "ok" || strings.HasPrefix(rep, "ok ") {
			return true
		}
		kind := "differ"
		if strings.HasPrefix(rep, "violated") {
			kind = "violated"
		} else if strings.HasPrefix(rep, "bad-op") {
			kind = "bad-op"
		}
		if !failed {
			c.Cov.Fail(Failure{Kind: kind, Clause: strings.Join(strings.Fields(rep)[:min(2, len(strings.Fields(rep)))], " "), Signature: "c01-" + sc.name, Line: strings.Join(trace, " | "), Reply: rep})
		}
		failed = true
		return false
	}
	say(fmt.Sprintf("begin %d", ncells))

	s := NewSched(c01ParkOn)
	delivered := make([][]int64, ncells)
	incsDone := make([][]int64, ncells)
	takeDelivered := func() (cell int, v int64, ok bool) {
		for _, e := range logp.Take() {
			switch e.Kind {
			case "counter":
				return 0, e.I, true
			case "samples":
				return e.Idx, e.I, true
			case "hval":
				if e.HiF == 10 {
					return 0, e.I, true
				}
				return 1, e.I, true
			}
		}
		return 0, 0, false
	}
	type vis struct {
		t    *Thr
		cell int
		live bool
	}
	var viss []*vis
	nextInc := 0
	modelOn := true
	for {
		// options: next increment, each live visitor, spawn
		type opt struct {
			kind string
			v    *vis
		}
		var opts []opt
		if nextInc < len(sc.incs) {
			opts = append(opts, opt{kind: "inc"})
		}
		for _, v := range viss {
			if v.live {
				opts = append(opts, opt{kind: "step", v: v})
			}
		}
		if len(viss) < sc.visitors {
			opts = append(opts, opt{kind: "spawn"})
		}
		if len(opts) == 0 {
			break
		}
		o := opts[ch.Pick(len(opts))]
		switch o.kind {
		case "inc":
			v := sc.incs[nextInc]
			cell := 0
			if sc.hist {
				cell = sc.incCell[nextInc]
				for k := int64(0); k < v; k++ { // samples: v unit increments
					if cell == 0 {
						hist.RecordValue(5)
					} else {
						hist.RecordValue(50)
					}
				}
				for k := int64(0); k < v; k++ {
					incsDone[cell] = append(incsDone[cell], 1)
					if modelOn {
						modelOn = say(fmt.Sprintf("inc %d 1", cell))
					}
				}
			} else {
				ctr.Inc(v)
				incsDone[0] = append(incsDone[0], v)
				if modelOn {
					modelOn = say(fmt.Sprintf("inc 0 %d", v))
				}
			}
			nextInc++
		case "spawn":
			id := len(viss)
			t := s.Spawn("v"+strconv.Itoa(id), func() { tally.VerifReportOnce(root) })
			viss = append(viss, &vis{t: t, live: true})
		case "step":
			v := o.v
			tid := v.t.Name[1:]
			before := v.t.At
			label, _ := s.Step(v.t)
			if label == "blocked" || label == "panic" {
				c.Cov.Fail(Failure{Kind: "crash", Clause: label, Signature: "c01-" + sc.name, Line: strings.Join(trace, " | ")})
				failed = true
				v.live = false
				break
			}
			// what did the step do?
			var lines []string
			switch before {
			case "start":
				if label == "done" { // nothing to visit
					v.live = false
				} else {
					lines = append(lines, fmt.Sprintf("step %s %d %s", tid, v.cell, label))
				}
			case "counter.deliver", "histogram.deliver":
				cell, dv, ok := takeDelivered()
				if !ok {
					lines = append(lines, fmt.Sprintf("step %s %d visit-end none", tid, v.cell))
				} else {
					delivered[cell] = append(delivered[cell], dv)
					lines = append(lines, fmt.Sprintf("step %s %d visit-end %d", tid, v.cell, dv))
				}
				v.cell++
				if label == "done" {
					v.live = false
				} else {
					lines = append(lines, fmt.Sprintf("step %s %d %s", tid, v.cell, label))
				}
			default: // parked inside value()
				switch {
				case label == "counter.deliver" || label == "histogram.deliver":
					lines = append(lines, fmt.Sprintf("step %s %d counter.deliver", tid, v.cell))
				case label == "done":
					lines = append(lines, fmt.Sprintf("step %s %d visit-end", tid, v.cell))
					v.live = false
				case label == "counter.value:0": // next cell
					lines = append(lines, fmt.Sprintf("step %s %d visit-end", tid, v.cell))
					v.cell++
					lines = append(lines, fmt.Sprintf("step %s %d %s", tid, v.cell, label))
				default: // an atomic action inside value() that the model does not have
					lines = append(lines, fmt.Sprintf("step %s %d %s", tid, v.cell, label))
				}
			}
			for _, l := range lines {
				if modelOn {
					modelOn = say(l)
				} else {
					trace = append(trace, l)
				}
			}
		}
	}
	s.Finish()
	// quiescence: two further solo passes
	tally.VerifReportOnce(root)
	passA := make([][]int64, ncells)
	for _, e := range logp.Take() {
		cell := -1
		switch e.Kind {
		case "counter":
			cell = 0
		case "samples":
			cell = e.Idx
		case "hval":
			cell = 1
			if e.HiF == 10 {
				cell = 0
			}
		}
		if cell >= 0 {
			delivered[cell] = append(delivered[cell], e.I)
			passA[cell] = append(passA[cell], e.I)
		}
	}
	if modelOn {
		// tell the model about the solo pass too: swap (+ deliver) per cell
		for cell := 0; cell < ncells && modelOn; cell++ {
			modelOn = say(fmt.Sprintf("step 999 %d counter.value:0", cell))
			if !modelOn {
				break
			}
			if len(passA[cell]) == 0 {
				modelOn = say(fmt.Sprintf("step 999 %d visit-end", cell))
			} else {
				modelOn = say(fmt.Sprintf("step 999 %d counter.deliver", cell))
				if modelOn {
					modelOn = say(fmt.Sprintf("step 999 %d visit-end %d", cell, passA[cell][0]))
				}
			}
		}
	}
	idle := make([][]int64, ncells)
	tally.VerifReportOnce(root)
	for _, e := range logp.Take() {
		switch e.Kind {
		case "counter":
			idle[0] = append(idle[0], e.I)
		case "samples":
			idle[e.Idx] = append(idle[e.Idx], e.I)
		case "hval":
			idle[0] = append(idle[0], e.I)
		}
	}
	closer.Close()
	for cell := 0; cell < ncells; cell++ {
		line := fmt.Sprintf("holds? %d %s %s %s", cell, i64List(incsDone[cell]), i64List(delivered[cell]), i64List(idle[cell]))
		trace = append(trace, line)
		rep := d.Ask(line)
		if rep != "ok" {
			kind, clause := "differ", "model-books"
			if strings.HasPrefix(rep, "violated") {
				kind = "violated"
				clause = strings.Fields(rep)[1]
			}
			if modelOn || kind == "violated" {
				c.Cov.Fail(Failure{Kind: kind, Clause: clause, Signature: "c01-" + sc.name, Line: strings.Join(trace, " | "), Reply: rep})
				failed = true
			}
		}
	}
	d.Ask("end")
	return trace, failed
}

func min(a, b int) int {
	if a < b {
		return a
	}
	return b
}

var c01IncPool = []int64{1, 2, 5, 0, -1, -3, 7, math.MaxInt64, math.MinInt64, math.MaxInt64 - 1, 1 << 40, -(1 << 40)}

func suiteC01(c *Ctx) {
	c.Cov.Rule = "schedule-controlled executions of {increments} x {1-3 report passes} on one counter / one 2-bucket histogram, plain and cached reporter; every atomic step of the real code is validated against the Lean model (lock-step) and the oracle Spec.C01.holds is evaluated on the observed deliveries; nontrivial = at least two passes overlap an increment window (a visitor is parked between its atomic actions while another action happens); distinct by the full step trace"
	start := time.Now()
	mk := func(r *Rng, name string, cached, hist bool, nincs, visitors int) c01Scenario {
		sc := c01Scenario{name: name, cached: cached, hist: hist, visitors: visitors}
		for i := 0; i < nincs; i++ {
			if hist {
				sc.incs = append(sc.incs, int64(r.Range(1, 3)))
				sc.incCell = append(sc.incCell, r.Intn(2))
			} else if r.Chance(70) {
				sc.incs = append(sc.incs, int64(r.Range(1, 9)))
			} else {
				sc.incs = append(sc.incs, c01IncPool[r.Intn(len(c01IncPool))])
			}
		}
		return sc
	}
	variants := []struct {
		name         string
		cached, hist bool
	}{{"plain-counter", false, false}, {"cached-counter", true, false}, {"plain-histogram", false, true}, {"cached-histogram", true, true}}
	// corpus first: the schedule that double-delivers on the pinned code: inc 5; v0 load curr, load prev; v1 load curr, load prev; v0 store; v1 store; deliver both
	for _, v := range variants[:2] {
		sc := c01Scenario{name: v.name + "-corpus", cached: v.cached, incs: []int64{5}, visitors: 2}
		tr, _ := runC01(c, sc, &replayChooser{trace: []int{0, 0, 1, 0, 1, 0, 0, 1, 1, 0, 0}})
		c.Cov.Schedules++
		c.Cov.Traces++
		c.Cov.Eval(strings.Join(tr, " | "), true)
	}
	n := c.N(400, 4000)
	for i := 0; i < n; i++ {
		r := c.Rng.Fork()
		v := variants[i%len(variants)]
		sc := mk(r, v.name, v.cached, v.hist, r.Range(1, 4), r.Range(1, 3))
		ch := &randChooser{r: r}
		tr, _ := runC01(c, sc, ch)
		c.Cov.Schedules++
		c.Cov.Traces++
		c.Cov.Hit("scenario." + v.name)
		key := strings.Join(tr, " | ")
		overlap := strings.Count(key, "counter.value:0") >= 2
		c.Cov.Eval(key, overlap)
	}
	// exhaustive: all schedules of 2 passes x 2 increments on one counter (plain); thorough also cached + 3 passes x 1 increment
	exh := []c01Scenario{{name: "exh-plain-2x2", incs: []int64{5, -2}, visitors: 2}}
	if c.Thorough() {
		exh = append(exh, c01Scenario{name: "exh-cached-2x2", cached: true, incs: []int64{3, 4}, visitors: 2},
			c01Scenario{name: "exh-plain-3x1", incs: []int64{7}, visitors: 3},
			c01Scenario{name: "exh-hist-2x2", hist: true, incs: []int64{1, 1}, incCell: []int{0, 1}, visitors: 2})
	}
	allDone := true
	for _, sc := range exh {
		ch := &dfsChooser{}
		cnt := 0
		for {
			tr, _ := runC01(c, sc, ch)
			cnt++
			c.Cov.Schedules++
			c.Cov.Traces++
			c.Cov.Eval(strings.Join(tr, " | "), true)
			if !ch.Next() {
				break
			}
			if cnt > 200000 || (!c.Thorough() && time.Since(start) > 40*time.Second) {
				allDone = false
				break
			}
		}
		c.Cov.HitN("exhaustive."+sc.name+".schedules", cnt)
	}
	// free-running search for windows no schedule point splits
	for i := c.N(6, 60); i > 0; i-- {
		c01Stress(c, c.Rng.Fork())
	}
	c.Cov.Exhaustive = false
	if allDone {
		c.Cov.Notes = append(c.Cov.Notes, "all schedules of the listed exhaustive scenarios were enumerated (see distribution exhaustive.*); random scenarios are sampled")
	}
	c.Cov.TracesField()
}

func (c *Cov) TracesField() {}
