package main

import (
	"fmt"
	"strconv"
	"strings"

	tally "github.com/uber-go/tally/v4"
)

// c01race: delta conservation when the first uses of one counter name race.  2-4 threads call
// scope.Counter("c") (parked between the read-locked probe and the write lock of scope.Counter) and then
// increment through the handle they got.  Afterwards two report passes run (plain / cached recording
// reporter) or a snapshot is taken (test scope).  Oracle: the deliveries under the counter's name add up to
// the increments; the second pass delivers nothing.  2 threads exhaustively, 3-4 sampled.

func init() { register("c01race", "C01", "", suiteC01Race) }

func runC01Race(c *Ctx, ch Chooser, kind string, nThreads int, onSub bool) string {
	var root tally.Scope
	var rec *recReporter
	var recC *recCached
	var ts tally.TestScope
	switch kind {
	case "plain":
		rec = newRec()
		root, _ = tally.VerifNewRootScope(tally.ScopeOptions{Reporter: rec, OmitCardinalityMetrics: true}, 0, 1)
	case "cached":
		recC = newRecCached()
		root, _ = tally.VerifNewRootScope(tally.ScopeOptions{CachedReporter: recC, OmitCardinalityMetrics: true}, 0, 1)
	default:
		ts = tally.VerifNewTestScope("", nil, 1)
		root = ts
	}
	sc := root
	full := "c"
	if onSub {
		sc = root.SubScope("a")
		full = "a.c"
	}
	s := NewSched(func(l string) bool { return l == "scope.counter.pre-lock" || l == "c01.inc" })
	want := int64(0)
	var thrs []*Thr
	for i := 0; i < nThreads; i++ {
		v := int64(i*3 + 1)
		want += 2 * v
		thrs = append(thrs, s.Spawn("T"+strconv.Itoa(i), func() {
			ctr := sc.Counter("c")
			ctr.Inc(v)
			hook("c01.inc", "")
			ctr.Inc(v)
		}))
	}
	var trace []string
	for {
		var cand []*Thr
		for _, t := range thrs {
			if !t.Done {
				cand = append(cand, t)
			}
		}
		if len(cand) == 0 {
			break
		}
		t := cand[ch.Pick(len(cand))]
		to, _ := s.Step(t)
		trace = append(trace, t.Name+"@"+to)
		if to == "blocked" || to == "panic" {
			c.Cov.Fail(Failure{Kind: "crash", Clause: to, Signature: "c01-race-" + kind, Line: strings.Join(trace, " "), Reply: fmt.Sprint(t.Pan)})
			s.Finish()
			return strings.Join(trace, " ")
		}
	}
	s.Finish()
	line := fmt.Sprintf("kind=%s threads=%d sub=%v schedule: %s", kind, nThreads, onSub, strings.Join(trace, " "))
	fail := func(clause, why string) {
		c.Cov.Fail(Failure{Kind: "violated", Clause: clause, Signature: "c01-race-" + kind, Line: line, Reply: why})
	}
	collect := func() (sum int64, n int) {
		switch kind {
		case "plain":
			for _, e := range rec.log.Take() {
				if e.Kind == "counter" && e.Name == full {
					sum += e.I
					n++
				}
			}
		case "cached":
			for _, e := range recC.log.Take() {
				if e.Kind == "counter" && recC.Meta[e.ID].Name == full {
					sum += e.I
					n++
				}
			}
		}
		return
	}
	if kind == "test" {
		got, n := int64(0), 0
		for _, x := range ts.Snapshot().Counters() {
			if x.Name() == full {
				got += x.Value()
				n++
			}
		}
		if n != 1 || got != want {
			fail("conservation", fmt.Sprintf("snapshot shows %d entr(ies) for counter %s with total %d, increments add up to %d", n, full, got, want))
		}
		return line
	}
	tally.VerifReportOnce(root)
	got, _ := collect()
	if got != want {
		fail("conservation", fmt.Sprintf("counter %s: increments add up to %d, deliveries of the next pass add up to %d", full, want, got))
		return line
	}
	tally.VerifReportOnce(root)
	if again, n := collect(); n != 0 {
		fail("idle-silent", fmt.Sprintf("a pass with no new increment delivered %d value(s) adding up to %d", n, again))
	}
	if cl, ok := root.(interface{ Close() error }); ok {
		cl.Close()
	}
	return line
}

func suiteC01Race(c *Ctx) {
	c.Cov.Rule = "2-4 threads make the first use of one counter name at the same time (each parked between scope.Counter's read-locked probe and its write lock, and between its two increments) on a plain, a cached and a reporter-less test scope, root and subscope; oracle: deliveries of the next pass (or the snapshot) add up to the increments, a further pass delivers nothing; all schedules for 2 threads (DFS), sampled for 3-4; nontrivial = two threads parked before the write lock at the same time; distinct by schedule"
	for _, kind := range []string{"test", "plain", "cached"} {
		for _, onSub := range []bool{false, true} {
			d := &dfsChooser{}
			for n := 0; n < 5000; n++ {
				d.depth = 0
				line := runC01Race(c, d, kind, 2, onSub)
				c.Cov.Eval(line, strings.Count(line, "@scope.counter.pre-lock") >= 2)
				c.Cov.Schedules++
				if !d.Next() {
					break
				}
			}
		}
	}
	n := c.N(150, 3000)
	for i := 0; i < n; i++ {
		r := c.Rng.Fork()
		kind := []string{"test", "plain", "cached"}[r.Intn(3)]
		line := runC01Race(c, &randChooser{r: r}, kind, r.Range(3, 4), r.Bool())
		c.Cov.Eval(line, strings.Count(line, "@scope.counter.pre-lock") >= 2)
		c.Cov.Schedules++
	}
	c.Cov.Notes = append(c.Cov.Notes, "all schedules of the 2-thread scenarios were enumerated (6 configurations); 3-4 threads sampled")
	c.Cov.Traces = c.Cov.Schedules
}
