package main

import (
	"fmt"
	"strings"
	"sync"
	"time"

	tally "github.com/uber-go/tally/v4"
)

// c08lock: lock-step validation of the real root Close / report loop against Model.RootClose.
//
// One root with 1-4 shards and K subscopes (the root itself without metrics), one counter ("cell") per subscope.
// A report pass walks the shards and, inside each, a Go map: the order in which it visits the cells is arbitrary and
// differs from pass to pass; the harness observes it through the registry.visit hook and hands it to the model,
// whose passes take the visiting order as an input (TallyProofs/Props/C08.lean holds for every order).
// Threads: the real report-loop goroutine (adopted at its first hook), 1-2 Close callers, 1-2 application threads
// recording (Inc(1)) and re-obtaining subscopes.  Every hook-to-hook transition of a thread is translated into
// events of the model and sent to the Lean driver, which rejects traces the model does not allow and says which
// Close calls would block in wg.Wait(); the scheduler only resumes threads the model says can run.  At the end the
// model's reporter log must equal the log of the real recording reporter, and the barrier clauses are evaluated on
// the model state.
// Schedule points: loop.start/tick/exit, loop.run.post-closed-check, close.post-cas/post-done/
// pre-reporter-close, before every reporter call of a pass (counter.deliver) and inside Flush (rep.flush).

func init() { register("c08lock", "C08", "rootclose", suiteC08Lock) }

func runC08Lock(c *Ctx, r *Rng) {
	cached := r.Bool()
	withLoop := r.Chance(80)
	closable := r.Bool()
	k := r.Range(1, 3)
	d := c.Drv
	var trace []string
	var tmu sync.Mutex
	failed := false
	say := func(line string) string {
		tmu.Lock()
		trace = append(trace, line)
		tmu.Unlock()
		if failed {
			return "ok"
		}
		rep := d.Ask(line)
		if rep == "ok" || strings.HasPrefix(rep, "ok ") || strings.HasPrefix(rep, "blocked") {
			return rep
		}
		kind, clause := "differ", "trace-not-accepted-by-model"
		if strings.HasPrefix(rep, "violated") {
			kind = "violated"
			if f := strings.Fields(rep); len(f) > 1 {
				clause = f[1]
			}
		} else if strings.HasPrefix(rep, "bad-op") {
			kind, clause = "bad-op", "protocol"
		}
		tmu.Lock()
		tr := strings.Join(trace, " | ")
		tmu.Unlock()
		c.Cov.Fail(Failure{Kind: kind, Clause: clause, Signature: "c08-lockstep", Line: tr, Reply: rep})
		failed = true
		return rep
	}

	s := NewSched(nil)
	// a Close caller past close(done) meets the close.* hooks again only inside registry.purge(), which closes every
	// subscope through the same scope.Close: those are not schedule points of the root's Close (the model's purge is
	// one step, between the final pass and the final Flush since repair D14)
	var pmu sync.Mutex
	inPurge := map[string]bool{}
	s.ParkOnT = func(th, l string) bool {
		if l == "close.post-cas" || l == "close.post-done" {
			pmu.Lock()
			p := inPurge[th]
			pmu.Unlock()
			if p {
				return false
			}
		}
		switch l {
		case "app.op", "loop.start", "loop.tick", "loop.exit", "loop.run.post-closed-check",
			"close.post-cas", "close.post-done", "close.pre-reporter-close", "close.wait-for-winner", "counter.deliver", "rep.flush":
			return true
		}
		return false
	}
	var vmu sync.Mutex
	var visits []string // registry keys visited since the last scheduler step
	s.Observe = func(l, a string) {
		if l == "registry.visit" {
			vmu.Lock()
			visits = append(visits, a)
			vmu.Unlock()
		}
	}
	var loop *Thr
	interval := time.Duration(0)
	if withLoop {
		loop = s.Expect("loop", "loop.start")
		interval = 300 * time.Microsecond
	}
	w := newWorld(cached, interval, uint(r.Range(1, 4)), closable)
	if withLoop && !s.WaitAdopted(loop) {
		c.Cov.Fail(Failure{Kind: "crash", Clause: "adopt", Signature: "c08-loop-not-adopted"})
		s.Finish()
		return
	}
	s.Timeout = 3 * time.Second
	w.log().Pre = func(e *Ev) {
		if e.Kind == "flush" {
			hook("rep.flush", "")
		}
	}
	names := make([]string, k)
	keys := map[string]int{}
	handles := make([]tally.Counter, k)
	for i := 0; i < k; i++ {
		names[i] = fmt.Sprintf("s%d", i)
		keys[tally.VerifKeyForPrefixedStringMaps(names[i], nil)] = i
		handles[i] = w.root.SubScope(names[i]).Counter("c")
	}
	b := func(x bool) int {
		if x {
			return 1
		}
		return 0
	}
	var repErr error
	if closable && r.Chance(35) {
		repErr = fmt.Errorf("reporter close failed")
		w.setCloseErr(repErr)
	}
	say(fmt.Sprintf("begin %d %d %d %d", k, b(withLoop), b(closable), b(repErr != nil)))
	cfg := fmt.Sprintf("cfg cached=%v loop=%v closable=%v k=%d", cached, withLoop, closable, k)

	var thrs []*Thr
	nApp := r.Range(1, 2)
	for i := 0; i < nApp; i++ {
		rr := r.Fork()
		thrs = append(thrs, s.Spawn(fmt.Sprintf("U%d", i), func() {
			for n := rr.Range(1, 5); n > 0; n-- {
				hook("app.op", "")
				cell := rr.Intn(k)
				if rr.Chance(25) {
					sc := w.root.SubScope(names[cell])
					res := "live"
					if sc == tally.NoopScope {
						res = "noop"
					}
					say(fmt.Sprintf("ev obtain %d => %s", cell, res))
				} else {
					handles[cell].Inc(1)
					say(fmt.Sprintf("ev record %d", cell))
				}
			}
		}))
	}
	nClose := 1
	if r.Chance(30) {
		nClose = 2
	}
	closers := map[*Thr]int{}
	closeErrs := make([]string, nClose)
	probed := map[*Thr]bool{}
	probedAt := map[*Thr]string{} // where a probed Close call was resumed from (it then sits in wg.Wait() resp. <-closeDone)
	for i := 0; i < nClose; i++ {
		i := i
		t := s.Spawn(fmt.Sprintf("C%d", i), func() {
			if err := w.closer.Close(); err != nil {
				closeErrs[i] = "err"
			} else {
				closeErrs[i] = "nil"
			}
		})
		closers[t] = i
		thrs = append(thrs, t)
	}
	all := thrs
	if loop != nil {
		all = append(append([]*Thr{}, thrs...), loop)
	}
	// the cells visited since the last step, in order, as the driver's order token ("-" = none); the last one is the
	// cell whose delivery the thread is parked at, if it is parked at one
	takeVisits := func() (tok string, last int) {
		vmu.Lock()
		defer vmu.Unlock()
		var cs []string
		last = -1
		for _, key := range visits {
			if i, ok := keys[key]; ok {
				cs = append(cs, fmt.Sprint(i))
				last = i
			}
		}
		visits = nil
		if len(cs) == 0 {
			return "-", -1
		}
		return strings.Join(cs, ","), last
	}
	closerMoved := func(t *Thr, ci int, from, to string) {
		switch to {
		case "close.post-cas":
			say(fmt.Sprintf("adv closer %d won", ci))
		case "close.post-done":
			say(fmt.Sprintf("adv closer %d doneClosed", ci))
			// from here on this thread meets the close.* hooks only inside registry.purge() (it closes every subscope
			// through scope.Close): not schedule points of the root's Close
			pmu.Lock()
			inPurge[t.Name] = true
			pmu.Unlock()
		case "counter.deliver":
			tok, last := takeVisits()
			say(fmt.Sprintf("adv closer %d deliver:%d %s", ci, last, tok))
		case "rep.flush":
			// the final pass is over, the registry has been purged (one step of the model), Flush is being called
			tok, _ := takeVisits()
			say(fmt.Sprintf("adv closer %d flush %s", ci, tok))
		case "close.pre-reporter-close":
			say(fmt.Sprintf("adv closer %d reporterClose", ci))
		case "close.wait-for-winner":
			// the CAS failed: this call waits for the winning call to return (repair D17)
			say(fmt.Sprintf("adv closer %d wait-winner", ci))
		case "done":
			if from == "start" || from == "close.wait-for-winner" {
				say(fmt.Sprintf("adv closer %d returnedNil", ci))
			} else {
				say(fmt.Sprintf("adv closer %d returned", ci))
			}
			say(fmt.Sprintf("result %d => %s", ci, closeErrs[ci]))
		}
	}
	holdClosers := loop != nil && r.Chance(55)
	for steps := 0; steps < 600 && !failed; steps++ {
		if holdClosers && (loop.At == "counter.deliver" || loop.At == "rep.flush" || loop.At == "loop.run.post-closed-check" || steps > 150) {
			holdClosers = false
		}
		// which Close calls would block in wg.Wait() according to the model
		blocked := map[string]bool{}
		rep := say("blocked")
		for _, f := range strings.Split(strings.TrimSpace(strings.TrimPrefix(rep, "blocked")), ",") {
			if f != "" {
				blocked["C"+f] = true
			}
		}
		var cand []*Thr
		others := false
		for _, t := range all {
			if t.Done {
				continue
			}
			if ci, ok := closers[t]; ok && (t.At == "close.post-done" || t.At == "close.wait-for-winner" || t.At == "blocked") && blocked[fmt.Sprintf("C%d", ci)] {
				others = true
				if (t.At == "close.post-done" || t.At == "close.wait-for-winner") && !probed[t] && r.Chance(20) {
					// probe: the model says this Close call must wait (for the loop goroutine in wg.Wait(), or -- a call that
					// lost the CAS -- for the winning call in <-closeDone); resume it with a short watchdog and expect it to
					// block (it then stays there, running, until what it waits for has happened)
					probed[t] = true
					probedAt[t] = t.At
					at := t.At
					s.Timeout = 25 * time.Millisecond
					to, _ := s.Step(t)
					s.Timeout = 3 * time.Second
					tmu.Lock()
					trace = append(trace, fmt.Sprintf("[probe %s %s->%s]", t.Name, at, to))
					tmu.Unlock()
					c.Cov.Hit("probe.blocked-closer@" + at)
					if to != "blocked" {
						why := "a Close call went past wg.Wait() to " + to + " although the report-loop goroutine has not exited"
						if at == "close.wait-for-winner" {
							why = "a Close call that lost the CAS went on to " + to + " although the winning call has not returned"
						}
						c.Cov.Fail(Failure{Kind: "differ", Clause: "close-ran-where-the-model-blocks", Signature: "c08-lockstep", Line: strings.Join(trace, " | "), Reply: why})
						failed = true
					}
				}
				continue
			}
			if t != loop {
				others = true
			}
			if _, ok := closers[t]; ok && holdClosers && t.At == "start" {
				continue
			}
			cand = append(cand, t)
		}
		if len(cand) == 0 {
			break
		}
		if !others && loop != nil && !loop.Done {
			// only the loop is left: nothing can call Close any more; stop here (the loop goroutine is released below)
			break
		}
		t := cand[r.Intn(len(cand))]
		if t == loop && len(cand) > 1 && r.Chance(55) {
			continue // the loop would otherwise take most of the steps
		}
		from := t.At
		if t == loop && from == "loop.exit" {
			s.Release(loop)
			continue
		}
		to, _ := s.Step(t)
		tmu.Lock()
		trace = append(trace, fmt.Sprintf("[%s %s->%s]", t.Name, from, to))
		tmu.Unlock()
		if to == "blocked" || to == "panic" {
			c.Cov.Fail(Failure{Kind: "crash", Clause: to + "-where-the-model-says-enabled", Signature: "c08-lockstep", Line: strings.Join(trace, " | "), Reply: fmt.Sprint(t.Pan)})
			failed = true
			break
		}
		if t == loop {
			switch to {
			case "loop.tick", "loop.exit":
				if from != "loop.start" {
					say("adv loop waiting")
				}
				if to == "loop.tick" {
					say("ev tick")
				} else {
					say("ev exit")
					// the model's `exit` is the goroutine's return (wg.Done): let it go now, there is no later hook
					s.Release(loop)
					// a probed Close call is sitting in wg.Wait() and continues by itself now: wait until it has
					// reached its next schedule point before anything else runs
					for ct, ci := range closers {
						if ct.At == "blocked" && !ct.Done && probedAt[ct] == "close.post-done" {
							to2, _ := s.Step(ct)
							tmu.Lock()
							trace = append(trace, fmt.Sprintf("[%s wg.Wait->%s]", ct.Name, to2))
							tmu.Unlock()
							if to2 == "blocked" || to2 == "panic" {
								c.Cov.Fail(Failure{Kind: "crash", Clause: to2 + "-where-the-model-says-enabled", Signature: "c08-lockstep", Line: strings.Join(trace, " | "), Reply: fmt.Sprint(ct.Pan)})
								failed = true
								break
							}
							closerMoved(ct, ci, "close.post-done", to2)
						}
					}
				}
			case "loop.run.post-closed-check":
				say("adv loop begin")
			case "counter.deliver":
				tok, last := takeVisits()
				say(fmt.Sprintf("adv loop deliver:%d %s", last, tok))
			case "rep.flush":
				tok, _ := takeVisits()
				say("adv loop flush " + tok)
			}
			continue
		}
		if ci, ok := closers[t]; ok {
			closerMoved(t, ci, from, to)
			if to == "done" && from != "start" && from != "close.wait-for-winner" {
				// the winning call has returned: a probed losing call sitting in <-closeDone continues by itself now
				for ct, cj := range closers {
					if ct.At == "blocked" && !ct.Done && probedAt[ct] == "close.wait-for-winner" {
						to2, _ := s.Step(ct)
						tmu.Lock()
						trace = append(trace, fmt.Sprintf("[%s <-closeDone->%s]", ct.Name, to2))
						tmu.Unlock()
						if to2 != "done" {
							c.Cov.Fail(Failure{Kind: "crash", Clause: to2 + "-where-the-model-says-enabled", Signature: "c08-lockstep", Line: strings.Join(trace, " | "), Reply: fmt.Sprint(ct.Pan)})
							failed = true
							break
						}
						closerMoved(ct, cj, "close.wait-for-winner", to2)
					}
				}
			}
		}
		// application threads send their own events from inside the step
	}
	complete := !failed
	for _, t := range thrs {
		if !t.Done {
			complete = false
		}
	}
	if loop != nil && !loop.Done && loop.At == "loop.exit" {
		s.Release(loop)
	}
	s.Finish()
	if failed {
		return
	}
	if !complete {
		c.Cov.Hit("incomplete-schedule")
		return
	}
	// the real reporter's log in the model's vocabulary
	var toks []string
	for _, e := range w.log().Snapshot() {
		switch e.Kind {
		case "counter":
			name := e.Name
			if cached {
				name = w.recC.Meta[e.ID].Name
			}
			cell := -1
			for i, n := range names {
				if name == n+".c" {
					cell = i
				}
			}
			toks = append(toks, fmt.Sprintf("d%d:%d", cell, e.I))
		case "flush":
			toks = append(toks, "f")
		case "close":
			toks = append(toks, "c")
		}
	}
	obs := "-"
	if len(toks) > 0 {
		obs = strings.Join(toks, ";")
	}
	say("final => " + obs)
	d.Ask("end")
	before := len(w.log().Snapshot())
	if pan, val := catch(func() {
		if err := w.closer.Close(); err != nil {
			c.Cov.Fail(Failure{Kind: "violated", Clause: "close-idempotent", Signature: "c08-lockstep", Line: strings.Join(trace, " | "), Reply: "a later Close returned " + err.Error()})
		}
	}); pan {
		c.Cov.Fail(Failure{Kind: "crash", Clause: "close-idempotent", Signature: "c08-lockstep", Line: strings.Join(trace, " | "), Reply: fmt.Sprintf("a later Close panicked: %v", val)})
	}
	if after := len(w.log().Snapshot()); after != before {
		c.Cov.Fail(Failure{Kind: "violated", Clause: "silent-after-close", Signature: "c08-lockstep", Line: strings.Join(trace, " | "), Reply: fmt.Sprintf("%d reporter calls by a later Close", after-before)})
	}
	tr := strings.Join(trace, " | ")
	midPass := strings.Contains(tr, "[loop counter.deliver->") || strings.Contains(tr, "[loop loop.run.post-closed-check->")
	c.Cov.Hit(fmt.Sprintf("closers=%d", nClose))
	c.Cov.Hit(fmt.Sprintf("loop=%v", withLoop))
	c.Cov.Eval(cfg+" | "+tr, midPass || nClose > 1 || !withLoop)
	c.Cov.Schedules++
	c.Cov.Traces++
}

func suiteC08Lock(c *Ctx) {
	c.Cov.Rule = "lock-step: every hook-to-hook transition of the real report-loop goroutine, of 1-2 Close callers and of 1-2 application threads (Inc, SubScope) on a root with 1-4 shards and K=1-3 subscopes (the order in which each pass visits them is observed and handed to the model), plain and cached, closable or not, with and without interval, is translated into Model.RootClose events and validated by the Lean driver (reject = the implementation left the model); the model decides which Close call may run (wg.Wait); at the end the model's reporter log must equal the real reporter's log and the barrier clauses are evaluated on the model state; sampled schedules from one PRNG; nontrivial = a pass of the loop was under way at some switch, or two Close callers, or no loop; distinct by trace"
	n := c.N(250, 5000)
	for i := 0; i < n; i++ {
		runC08Lock(c, c.Rng.Fork())
	}
}
