package main

// Chooser supplies the scheduling decisions of one execution.
type Chooser interface {
	Pick(n int) int // choose one of n options (n >= 1)
}

type randChooser struct {
	r     *Rng
	trace []int
}

func (c *randChooser) Pick(n int) int {
	k := c.r.Intn(n)
	c.trace = append(c.trace, k)
	return k
}

// dfsChooser enumerates all decision sequences (stateless DFS by re-execution).
type dfsChooser struct {
	prefix []int
	widths []int
	depth  int
}

func (c *dfsChooser) Pick(n int) int {
	d := c.depth
	c.depth++
	if d < len(c.prefix) {
		c.widths[d] = n
		if c.prefix[d] >= n {
			c.prefix[d] = n - 1
		}
		return c.prefix[d]
	}
	c.prefix = append(c.prefix, 0)
	c.widths = append(c.widths, n)
	return 0
}

// Next advances to the next decision sequence; false when the space is exhausted.
func (c *dfsChooser) Next() bool {
	c.prefix = c.prefix[:c.depth]
	c.widths = c.widths[:c.depth]
	for d := len(c.prefix) - 1; d >= 0; d-- {
		if c.prefix[d]+1 < c.widths[d] {
			c.prefix[d]++
			c.prefix = c.prefix[:d+1]
			c.widths = c.widths[:d+1]
			c.depth = 0
			return true
		}
	}
	return false
}

type replayChooser struct {
	trace []int
	i     int
}

func (c *replayChooser) Pick(n int) int {
	if c.i < len(c.trace) {
		k := c.trace[c.i]
		c.i++
		if k < n {
			return k
		}
	}
	return 0
}
