package main

import (
	"fmt"
	"io"
	"strings"
	"sync"
	"sync/atomic"
	"time"

	tally "github.com/uber-go/tally/v4"
)

// c11conc: "... with snapshots taken at arbitrary points, also concurrently with recording".  Free-running: G
// recorder goroutines work on a test scope tree (each on metrics of its own, whose exact history it knows, plus one
// shared counter, plus first uses of fresh names all the time, which is what writes to the scope's maps) while a
// snapshotter takes snapshots in a loop, writes into every snapshot it gets, and judges each one:
//   * a counter never shows more than has been added to it so far, and never less than an earlier snapshot showed;
//   * a timer's values are a prefix of what its only writer recorded, in order, never shorter than before;
//   * a histogram never shows more samples than were recorded;
// after the recorders have finished, one more snapshot must be exact (sums, last gauge values, all timer values in
// order, histogram counts per bound).  A data race that corrupts a map kills the process (Go's runtime detects
// concurrent map access); tools/check.py reports a process that dies inside the library as a concrete violation.
// The statement for all sequential histories is TallyProofs/Props/C11.lean; this suite samples the concurrent ones.

func init() {
	register("c11conc", "C11", "", suiteC11Conc)
}

func runC11Conc(c *Ctx, r *Rng, rounds int) {
	const G = 4
	ts := tally.NewTestScope("p", map[string]string{"env": "t"})
	scopes := []tally.Scope{ts, ts.SubScope("a"), ts.Tagged(map[string]string{"k": "v"}), ts.SubScope("a").Tagged(map[string]string{"k": "w"})}
	var added [G]int64   // per recorder: total added to its own counter (published after Inc returned)
	var started [G]int64 // … total about to be added (published BEFORE the Inc): upper bound for a concurrent reader
	var sharedStarted, sharedDone int64
	var recN [G]int64 // timer values recorded so far (after), and started (before)
	var recStarted [G]int64
	var histStarted [G]int64
	lastGauge := make([]float64, G)
	seeds := make([]*Rng, G)
	for g := range seeds {
		seeds[g] = r.Fork()
	}
	var wg sync.WaitGroup
	stop := make(chan struct{})
	line := fmt.Sprintf("test scope tree, %d recorders x %d rounds (own counter / gauge / timer / histogram each, one shared counter, a fresh name every 4th round) against a snapshot loop", G, rounds)
	fail := func(clause, why string) {
		c.Cov.Fail(Failure{Kind: "violated", Clause: clause, Signature: "c11conc-" + clause, Line: line, Reply: why})
	}
	for g := 0; g < G; g++ {
		g := g
		wg.Add(1)
		go func() {
			defer wg.Done()
			rr := seeds[g]
			sc := scopes[g%len(scopes)]
			cn, gn, tn, hn := fmt.Sprintf("c%d", g), fmt.Sprintf("g%d", g), fmt.Sprintf("t%d", g), fmt.Sprintf("h%d", g)
			for i := 0; i < rounds; i++ {
				v := int64(rr.Range(0, 9))
				atomic.AddInt64(&started[g], v)
				sc.Counter(cn).Inc(v)
				atomic.AddInt64(&added[g], v)
				atomic.AddInt64(&sharedStarted, 1)
				ts.Counter("shared").Inc(1)
				atomic.AddInt64(&sharedDone, 1)
				gv := float64(i)
				sc.Gauge(gn).Update(gv)
				lastGauge[g] = gv
				atomic.AddInt64(&recStarted[g], 1)
				sc.Timer(tn).Record(time.Duration(i))
				atomic.AddInt64(&recN[g], 1)
				atomic.AddInt64(&histStarted[g], 1)
				sc.Histogram(hn, tally.ValueBuckets{1, 2}).RecordValue(float64(i % 3))
				if i%4 == 0 { // first uses: the scope's maps grow while they are being read
					sc.Counter(fmt.Sprintf("fresh%d_%d", g, i)).Inc(1)
					scopes[(g+i)%len(scopes)].SubScope(fmt.Sprintf("s%d_%d", g, i%7)).Gauge("x").Update(1)
				}
			}
		}()
	}
	ownKey := func(g int, name string) string {
		full := "p." + name
		tags := map[string]string{"env": "t"}
		switch g % len(scopes) {
		case 1:
			full = "p.a." + name
		case 2:
			tags["k"] = "v"
		case 3:
			full = "p.a." + name
			tags["k"] = "w"
		}
		return tally.KeyForPrefixedStringMap(full, tags)
	}
	snaps := 0
	var prevC [G]int64
	var prevT [G]int
	judge := func(final bool) bool {
		// "never more than had been started" is read AFTER the snapshot returned (recording goes on while it is taken);
		// the lower bounds come from earlier snapshots
		var hiC, hiT, hiH [G]int64
		snap := ts.Snapshot()
		for g := 0; g < G; g++ {
			hiC[g], hiT[g], hiH[g] = atomic.LoadInt64(&started[g]), atomic.LoadInt64(&recStarted[g]), atomic.LoadInt64(&histStarted[g])
		}
		hiShared := atomic.LoadInt64(&sharedStarted)
		snaps++
		ctrs, tms, hs, gs := snap.Counters(), snap.Timers(), snap.Histograms(), snap.Gauges()
		for g := 0; g < G; g++ {
			ck := ownKey(g, fmt.Sprintf("c%d", g))
			if cs, ok := ctrs[ck]; ok {
				v := cs.Value()
				if v > hiC[g] || v < prevC[g] {
					fail("counter-is-sum", fmt.Sprintf("counter c%d shows %d; at most %d had been added when the snapshot returned, an earlier snapshot showed %d", g, v, hiC[g], prevC[g]))
					return false
				}
				if final && v != atomic.LoadInt64(&added[g]) {
					fail("counter-is-sum", fmt.Sprintf("final snapshot: counter c%d shows %d, %d were added", g, v, added[g]))
					return false
				}
				prevC[g] = v
			} else if final || prevC[g] > 0 {
				fail("one-entry-per-metric", fmt.Sprintf("counter c%d (key %q) is missing from a snapshot", g, ck))
				return false
			}
			tk := ownKey(g, fmt.Sprintf("t%d", g))
			if tsn, ok := tms[tk]; ok {
				vs := tsn.Values()
				if int64(len(vs)) > hiT[g] || len(vs) < prevT[g] {
					fail("timer-values-in-order", fmt.Sprintf("timer t%d shows %d values; %d had been recorded, an earlier snapshot showed %d", g, len(vs), hiT[g], prevT[g]))
					return false
				}
				for i, v := range vs {
					if v != time.Duration(i) {
						fail("timer-values-in-order", fmt.Sprintf("timer t%d: value %d of the snapshot is %d", g, i, int64(v)))
						return false
					}
				}
				if final && int64(len(vs)) != atomic.LoadInt64(&recN[g]) {
					fail("timer-values-in-order", fmt.Sprintf("final snapshot: timer t%d shows %d values, %d were recorded", g, len(vs), recN[g]))
					return false
				}
				prevT[g] = len(vs)
				for i := range vs { // writing into a snapshot must not reach the scope
					vs[i] = -1
				}
			} else if final {
				fail("one-entry-per-metric", fmt.Sprintf("timer t%d is missing from the final snapshot", g))
				return false
			}
			hk := ownKey(g, fmt.Sprintf("h%d", g))
			if hsn, ok := hs[hk]; ok {
				total := int64(0)
				for _, n := range hsn.Values() {
					total += n
				}
				if total > hiH[g] {
					fail("histogram-counts", fmt.Sprintf("histogram h%d shows %d samples, %d had been recorded", g, total, hiH[g]))
					return false
				}
				if final && total != atomic.LoadInt64(&histStarted[g]) {
					fail("histogram-counts", fmt.Sprintf("final snapshot: histogram h%d shows %d samples, %d were recorded", g, total, histStarted[g]))
					return false
				}
				for k := range hsn.Values() {
					hsn.Values()[k] = -7
				}
			} else if final {
				fail("one-entry-per-metric", fmt.Sprintf("histogram h%d is missing from the final snapshot", g))
				return false
			}
			if final {
				gk := ownKey(g, fmt.Sprintf("g%d", g))
				if gsn, ok := gs[gk]; !ok || gsn.Value() != lastGauge[g] {
					fail("gauge-is-last-update", fmt.Sprintf("final snapshot: gauge g%d missing or not the last update %v", g, lastGauge[g]))
					return false
				}
			}
		}
		if cs, ok := ctrs[tally.KeyForPrefixedStringMap("p.shared", map[string]string{"env": "t"})]; ok {
			if cs.Value() > hiShared || (final && cs.Value() != atomic.LoadInt64(&sharedDone)) {
				fail("counter-is-sum", fmt.Sprintf("the shared counter shows %d; %d increments had started, %d are complete (final=%v)", cs.Value(), hiShared, sharedDone, final))
				return false
			}
		}
		for k := range ctrs { // mutate the snapshot's maps
			delete(ctrs, k)
		}
		return true
	}
	done := make(chan struct{})
	ok := true
	go func() {
		defer close(done)
		for {
			select {
			case <-stop:
				return
			default:
			}
			if !judge(false) {
				ok = false
				return
			}
		}
	}()
	// a second party takes snapshots of the same tree at the same time (two components scraping one test scope): every
	// snapshot is complete on its own, whatever other snapshots are being taken
	done2 := make(chan struct{})
	go func() {
		defer close(done2)
		for {
			select {
			case <-stop:
				return
			default:
			}
			s2 := ts.Snapshot()
			for k := range s2.Counters() {
				delete(s2.Counters(), k)
			}
		}
	}()
	wg.Wait()
	close(stop)
	<-done
	<-done2
	if ok {
		ok = judge(true)
	}
	c.Cov.HitN("snapshots-taken-while-recording", snaps)
	c.Cov.Eval(fmt.Sprintf("%s seed=%d", line, r.U64()), snaps > 1)
	c.Cov.Schedules++
}

// runC11SubRace: two threads derive the SAME new subscope of a test scope at the same time (parked before the read lock
// and before the write lock of the registry), record on it and close it.  "Test scopes and their metrics survive Close
// of a subscope and remain visible in later snapshots": the final snapshot shows what both recorded, whatever the
// schedule.  All schedules for two threads.
func runC11SubRace(c *Ctx, ch Chooser, tagged bool) string {
	ts := tally.NewTestScope("p", nil)
	obtain := func() tally.Scope {
		if tagged {
			return ts.Tagged(map[string]string{"k": "v"})
		}
		return ts.SubScope("x")
	}
	s := NewSched(func(l string) bool {
		return l == "registry.subscope.pre-rlock" || l == "registry.subscope.pre-lock" || l == "registry.remove.pre-lock"
	})
	var thrs []*Thr
	for i := 0; i < 2; i++ {
		i := i
		thrs = append(thrs, s.Spawn(fmt.Sprintf("T%d", i), func() {
			sc := obtain()
			sc.Counter("hits").Inc(int64(1 + i))
			sc.Timer("t").Record(time.Duration(1 + i))
			sc.(io.Closer).Close()
		}))
	}
	var trace []string
	for {
		var cand []*Thr
		for _, t := range thrs {
			if !t.Done {
				cand = append(cand, t)
			}
		}
		if len(cand) == 0 {
			break
		}
		t := cand[ch.Pick(len(cand))]
		to, _ := s.Step(t)
		trace = append(trace, t.Name+"@"+to)
		if to == "blocked" || to == "panic" {
			c.Cov.Fail(Failure{Kind: "crash", Clause: to, Signature: "c11conc-subscope-race", Line: strings.Join(trace, " "), Reply: fmt.Sprint(t.Pan)})
			s.Finish()
			return strings.Join(trace, " ")
		}
	}
	s.Finish()
	line := fmt.Sprintf("test scope, tagged=%v, two threads derive the same new subscope, record (hits +1 / +2, one timer value each) and close it; schedule: %s", tagged, strings.Join(trace, " "))
	snap := ts.Snapshot()
	total, nt := int64(0), 0
	for _, cs := range snap.Counters() {
		if strings.HasSuffix(cs.Name(), "hits") {
			total += cs.Value()
		}
	}
	for _, tm := range snap.Timers() {
		nt += len(tm.Values())
	}
	if total != 3 || nt != 2 {
		c.Cov.Fail(Failure{Kind: "violated", Clause: "test-scope-survives-close", Signature: "c11conc-subscope-race", Line: line,
			Reply: fmt.Sprintf("the final snapshot shows hits=%d (3 recorded) and %d timer values (2 recorded)", total, nt)})
	}
	return line
}

func suiteC11Conc(c *Ctx) {
	for _, tagged := range []bool{false, true} {
		d := &dfsChooser{}
		for n := 0; n < 5000; n++ {
			d.depth = 0
			line := runC11SubRace(c, d, tagged)
			c.Cov.Eval(line, strings.Count(line, "@registry.subscope.pre-lock") >= 2)
			c.Cov.Schedules++
			if !d.Next() {
				break
			}
		}
	}
	c.Cov.Rule = "all schedules of two threads deriving the same new subscope of a test scope (parked before the registry's read and write locks), recording and closing it: the final snapshot shows everything recorded; then free-running: 4 recorder goroutines (own counter, gauge, timer, value histogram each on one of four scopes of a test scope tree, one shared counter, a first use of a fresh name and of a fresh subscope every 4th round) against a goroutine that takes snapshots in a loop, writes into every snapshot, and judges each (while a second goroutine takes and scribbles over snapshots of its own): counters between the previous snapshot's value and what had been added, timer values an in-order prefix, histogram totals bounded; final snapshot exact; a process killed by the runtime (concurrent map access) is reported by check.py as a violation; nontrivial = at least two snapshots were taken while recording went on"
	n := c.N(12, 120)
	for i := 0; i < n; i++ {
		runC11Conc(c, c.Rng.Fork(), 300)
	}
	c.Cov.Traces = c.Cov.Schedules
}
