package main

import (
	"fmt"
	"net"
	"strconv"
	"strings"
	"sync"
	"time"

	tally "github.com/uber-go/tally/v4"
	"github.com/uber-go/tally/v4/m3"
)

// Side scenarios of the M3 properties that need concurrency or a destination fault.
//
// c12conc (C12): many goroutines ALLOCATE metrics on one reporter at the same time.  The size charged to each
// handle (read through the verif shim) must equal the size the same allocation is charged on a fresh reporter
// with the same options when nothing else runs (the sequential charge is what suite c12 compares with the
// model and with the bytes on the wire).  An under-charged handle is what lets a datagram outgrow the limit.
//
// c13fault (C13): two destinations, one of them dead (nothing listens on its port, every other send to it is
// refused).  Every datagram the healthy destination receives must be exactly one well-formed, non-empty thrift
// message, and the values reported must arrive there exactly once.

func init() {
	register("c12conc", "C12", "", suiteC12Conc)
	register("c13fault", "C13", "", suiteC13Fault)
}

type m3AllocSpec struct {
	kind string
	name string
	tags map[string]string
	vals tally.ValueBuckets // kind "hist"
}

func m3AllocSpecs(r *Rng, n int, shared []map[string]string) []m3AllocSpec {
	out := make([]m3AllocSpec, n)
	for i := range out {
		tags := map[string]string{}
		for k := r.Intn(5); k > 0; k-- {
			tags[fmt.Sprintf("k%d", r.Intn(6))] = genBytesStr(r, 40)
		}
		out[i] = m3AllocSpec{kind: []string{"counter", "gauge", "timer"}[r.Intn(3)], name: fmt.Sprintf("m%d.%s", i, genBytesStr(r, 60)), tags: tags}
		if r.Chance(35) {
			// a histogram over one of a few tag sets that every goroutine uses (one entry of the reporter's tag cache),
			// with bounds whose decimal renderings differ in length
			out[i].kind = "hist"
			out[i].tags = shared[r.Intn(len(shared))]
			for k := r.Range(1, 5); k > 0; k-- {
				out[i].vals = append(out[i].vals, []float64{1, 2.5, 10, 1234.5678, 1e-7, 123456789, 0.001, 99999.125}[r.Intn(8)]*float64(k))
			}
		}
	}
	return out
}

// sizes charged for one allocation: one number, or one per bucket for a histogram
func m3AllocSize(rep m3.Reporter, sp m3AllocSpec) []int32 {
	switch sp.kind {
	case "counter":
		return []int32{m3.VerifMetricSize(rep.AllocateCounter(sp.name, sp.tags))}
	case "gauge":
		return []int32{m3.VerifMetricSize(rep.AllocateGauge(sp.name, sp.tags))}
	case "hist":
		return m3.VerifBucketSizes(rep.AllocateHistogram(sp.name, sp.tags, sp.vals))
	default:
		return []int32{m3.VerifMetricSize(rep.AllocateTimer(sp.name, sp.tags))}
	}
}

func runC12Conc(c *Ctx, r *Rng) {
	sink := newM3Sink()
	defer sink.close()
	proto := m3.Compact
	if r.Bool() {
		proto = m3.Binary
	}
	opts := m3.Options{HostPorts: []string{sink.addr()}, Service: "svc", Env: "test", Protocol: proto, MaxQueueSize: 4096, MaxPacketSizeBytes: 1440}
	ref, err := m3.NewReporter(opts)
	must(err)
	defer ref.Close()
	rep, err := m3.NewReporter(opts)
	must(err)
	defer rep.Close()
	nG, per := r.Range(2, 8), r.Range(20, 120)
	// a fleet: 11-14 reporters of one protocol alive in the process (one per tenant, say), each used by its own
	// goroutine at the same time - nothing a reporter measures with may be shared with another reporter
	reps := []m3.Reporter{rep}
	if r.Chance(25) {
		nG, per = r.Range(11, 14), r.Range(15, 50)
		for len(reps) < nG {
			x, err := m3.NewReporter(opts)
			must(err)
			defer x.Close()
			reps = append(reps, x)
		}
		c.Cov.Hit("c12conc.fleet-of-reporters")
	}
	shared := make([]map[string]string, 3)
	for i := range shared {
		shared[i] = map[string]string{}
		for k := r.Range(0, 8); k > 0; k-- {
			shared[i][fmt.Sprintf("s%d", k)] = genBytesStr(r, 20)
		}
	}
	specs := make([][]m3AllocSpec, nG)
	want := make([][][]int32, nG)
	for g := range specs {
		specs[g] = m3AllocSpecs(r, per, shared)
		want[g] = make([][]int32, per)
		for i, sp := range specs[g] {
			want[g][i] = m3AllocSize(ref, sp)
		}
	}
	got := make([][][]int32, nG)
	var panicMu sync.Mutex
	var panics []string
	var wg sync.WaitGroup
	start := make(chan struct{})
	for g := 0; g < nG; g++ {
		g := g
		got[g] = make([][]int32, per)
		wg.Add(1)
		go func() {
			defer wg.Done()
			<-start
			if p, v := catch(func() {
				for i, sp := range specs[g] {
					got[g][i] = m3AllocSize(reps[g%len(reps)], sp)
				}
			}); p {
				panicMu.Lock()
				panics = append(panics, fmt.Sprint(v))
				panicMu.Unlock()
			}
		}()
	}
	close(start)
	wg.Wait()
	line := fmt.Sprintf("protocol=%v reporters=%d goroutines=%d allocations-each=%d", proto, len(reps), nG, per)
	if len(panics) > 0 {
		c.Cov.Fail(Failure{Kind: "crash", Clause: "no-panic", Signature: "c12-concurrent-allocation-panic", Line: line, Reply: "Allocate panicked: " + panics[0]})
		return
	}
	for g := range got {
		for i := range got[g] {
			if fmt.Sprint(got[g][i]) != fmt.Sprint(want[g][i]) {
				sp := specs[g][i]
				c.Cov.Fail(Failure{Kind: "violated", Clause: "charged-ge-actual", Signature: "c12-concurrent-allocation", Line: line,
					Reply: fmt.Sprintf("%s %q with %d tags is charged %v bytes when allocated while other goroutines allocate, %v bytes when allocated alone", sp.kind, sp.name, len(sp.tags), got[g][i], want[g][i])})
				return
			}
		}
	}
	c.Cov.Eval(line+fmt.Sprint(r.U64()), true)
}

func suiteC12Conc(c *Ctx) {
	c.Cov.Rule = "2-8 goroutines allocate 20-120 counters / gauges / timers / histograms each (names up to 60 bytes, 0-4 tags, boundary lengths; the histograms over three tag sets of 0-8 tags shared by all goroutines, with bounds whose renderings differ in length, charged per bucket) on one M3 reporter at the same time (a quarter of the cases: 11-14 reporters of one protocol, one goroutine each), both protocols; oracle: no panic, the size charged to every handle equals the size charged for the same allocation on a fresh reporter with nothing else running; every case nontrivial"
	n := c.N(25, 400)
	for i := 0; i < n; i++ {
		runC12Conc(c, c.Rng.Fork())
	}
	c.Cov.Traces = c.Cov.Evaluations
}

func runC13Fault(c *Ctx, r *Rng) {
	sink := newM3Sink()
	// a port with no listener: bind, note the address, close
	dead, err := net.ListenUDP("udp4", &net.UDPAddr{IP: net.IPv4(127, 0, 0, 1), Port: 0})
	must(err)
	deadAddr := dead.LocalAddr().String()
	dead.Close()
	proto, p := m3.Compact, "c"
	if r.Bool() {
		proto, p = m3.Binary, "b"
	}
	hosts := []string{sink.addr(), deadAddr}
	if r.Bool() {
		hosts = []string{deadAddr, sink.addr()}
	}
	rep, err := m3.NewReporter(m3.Options{HostPorts: hosts, Service: "svc", Env: "test", Protocol: proto, MaxQueueSize: 256, MaxPacketSizeBytes: int32(r.Range(300, 1440))})
	must(err)
	ctr := rep.AllocateCounter("faulty.counter", map[string]string{"a": "b"})
	tm := rep.AllocateTimer("faulty.timer", nil)
	nBatches := r.Range(3, 12)
	reported := 0
	for b := 0; b < nBatches; b++ {
		for k := r.Range(1, 15); k > 0; k-- {
			ctr.ReportCount(int64(1000*b + k))
			tm.ReportTimer(time.Duration(b+1) * time.Millisecond)
			reported += 2
		}
		rep.Flush()
		time.Sleep(time.Duration(r.Range(200, 2000)) * time.Microsecond)
	}
	rep.Close()
	sink.settle(150*time.Millisecond, 5*time.Second)
	pkts := sink.close()
	line := fmt.Sprintf("protocol=%s destinations=%v (second/first one dead) batches=%d", p, len(hosts), nBatches)
	decoded := 0
	for i, pk := range pkts {
		if len(pk) == 0 {
			c.Cov.Fail(Failure{Kind: "violated", Clause: "one-wellformed-message-per-datagram", Signature: "c13-dead-destination", Line: line,
				Reply: fmt.Sprintf("datagram %d of %d received by the healthy destination is empty", i, len(pkts))})
			return
		}
		_, batch, err := goDecodeMessage(p, pk)
		if err != nil {
			c.Cov.Fail(Failure{Kind: "violated", Clause: "one-wellformed-message-per-datagram", Signature: "c13-dead-destination", Line: line,
				Reply: fmt.Sprintf("datagram %d (%d bytes) does not decode as one emitMetricBatchV2 message: %v", i, len(pk), err)})
			return
		}
		for _, m := range batch.Metrics {
			if m.Name == "faulty.counter" || m.Name == "faulty.timer" {
				decoded++
			}
		}
	}
	// a send to a dead peer fails (ECONNREFUSED on every other send on Linux loopback): the multi transport still
	// writes to and flushes every destination, so the healthy one must have received every value exactly once
	if decoded != reported {
		c.Cov.Fail(Failure{Kind: "violated", Clause: "delivery-exactly-once", Signature: "c13-dead-destination", Line: line,
			Reply: fmt.Sprintf("%d values reported, %d received by the healthy destination", reported, decoded)})
		return
	}
	c.Cov.Eval(line+fmt.Sprint(r.U64()), true)
}

func suiteC13Fault(c *Ctx) {
	c.Cov.Rule = "an M3 reporter with two destinations one of which has no listener (sends to it are refused), both protocols, 3-12 flushed batches of counter and timer values; oracle: every datagram at the healthy destination is non-empty and decodes as exactly one well-formed one-way emitMetricBatchV2 message, and every reported value arrives there exactly once; every case nontrivial"
	n := c.N(12, 150)
	for i := 0; i < n; i++ {
		runC13Fault(c, c.Rng.Fork())
	}
	c.Cov.Traces = c.Cov.Evaluations
}

var _ tally.Scope = nil

// c13big: "ids increasing with the bounds" at the size where the width of the id text changes - a histogram of 9999,
// 10000 and 10001 bounds (the reporter adds the bucket that reaches up to infinity, so there is one bucket more than
// bounds).  Samples are reported through the first bucket, the last finite one and the one reaching to infinity; the
// bucket-id texts received must have one length and increase (as byte strings) with the bounds.
func init() {
	register("c13big", "C13", "", suiteC13Big)
}

func suiteC13Big(c *Ctx) {
	c.Cov.Rule = "an M3 reporter (both protocols) with a value histogram of 9999 / 10000 / 10001 bounds (1e4 is where the bucket-id text needs a fifth digit); one sample each through the first bucket, the last finite bucket and the bucket reaching to infinity; oracle: the three bucket-id tag values received have one length and increase, as byte strings, with the bounds; every case nontrivial"
	for _, p := range []m3.Protocol{m3.Compact, m3.Binary} {
		for _, n := range []int{9999, 10000, 10001} {
			sink := newM3Sink()
			rep, err := m3.NewReporter(m3.Options{HostPorts: []string{sink.addr()}, Service: "svc", Env: "test", Protocol: p, MaxQueueSize: 64, MaxPacketSizeBytes: 1440})
			must(err)
			bs := make(tally.ValueBuckets, n)
			for i := range bs {
				bs[i] = float64(i + 1)
			}
			pairs := tally.BucketPairs(bs)
			h := rep.AllocateHistogram("big", map[string]string{"k": "v"}, bs)
			idx := []int{0, n - 1, n} // first, last finite, the one reaching to infinity
			for k, i := range idx {
				h.ValueBucket(pairs[i].LowerBoundValue(), pairs[i].UpperBoundValue()).ReportSamples(int64(k + 1))
			}
			rep.Flush()
			rep.Close()
			sink.settle(150*time.Millisecond, 5*time.Second)
			ids := map[int64]string{}
			proto := "c"
			if p == m3.Binary {
				proto = "b"
			}
			for _, pk := range sink.close() {
				_, batch, err := goDecodeMessage(proto, pk)
				if err != nil {
					continue
				}
				for _, m := range batch.Metrics {
					if m.Name != "big" {
						continue
					}
					for _, t := range m.Tags {
						if t.Name == "bucketid" {
							ids[m.Value.Count] = t.Value // the last tag of that name
						}
					}
				}
			}
			line := fmt.Sprintf("protocol=%s bounds=%d: samples through bucket 0, bucket %d and bucket %d", proto, n, n-1, n)
			a, b, z := ids[1], ids[2], ids[3]
			switch {
			case a == "" || b == "" || z == "":
				c.Cov.Fail(Failure{Kind: "violated", Clause: "delivery-exactly-once", Signature: "c13big-missing", Line: line, Reply: fmt.Sprintf("bucket ids received: %q %q %q", a, b, z)})
			case len(a) != len(b) || len(b) != len(z) || !(a < b && b < z):
				c.Cov.Fail(Failure{Kind: "violated", Clause: "bucket-ids-increase", Signature: "c13big-ids-do-not-increase", Line: line,
					Reply: fmt.Sprintf("bucket ids of the first, the last finite and the last bucket: %q %q %q - not one length, or not increasing as byte strings", a, b, z)})
			}
			c.Cov.Eval(line, true)
		}
	}
	c.Cov.Traces = c.Cov.Evaluations
}

// c13pool: the reporter's pool of tag arrays holds 4096 of them; a metric allocated early must keep its tags when
// thousands of further tag sets have been converted on the same reporter (an array handed back to the pool while a
// metric still uses it is handed out again only after the pool has gone round).  Two early metrics carry tag sets
// with ONE tag-cache key ({a: "b=c"} and {"a=b": "c"}: the cache hashes name=value), so the second takes the cache's
// collision path.
func init() {
	register("c13pool", "C13", "", suiteC13Pool)
}

func suiteC13Pool(c *Ctx) {
	c.Cov.Rule = "an M3 reporter (both protocols, two orders of the colliding pair): counters with the tag sets {a: b=c} and {a=b: c} (one tag-cache key) and a plain one are allocated first, then 4200 / 9000 counters with distinct tag sets (more than the 4096 tag arrays of the pool), then the early counters are reported; oracle: they arrive with their own tags, and no datagram exceeds MaxPacketSizeBytes; every case nontrivial"
	for _, p := range []m3.Protocol{m3.Compact, m3.Binary} {
		for _, many := range []int{4200, 9000} {
			for order := 0; order < 2; order++ {
				sink := newM3Sink()
				const maxPkt = 1440
				rep, err := m3.NewReporter(m3.Options{HostPorts: []string{sink.addr()}, Service: "svc", Env: "test", Protocol: p, MaxQueueSize: 256, MaxPacketSizeBytes: maxPkt})
				must(err)
				sets := []map[string]string{{"a": "b=c"}, {"a=b": "c"}, {"plain": "x"}}
				if order == 1 {
					sets[0], sets[1] = sets[1], sets[0]
				}
				early := make([]tally.CachedCount, len(sets))
				for i, t := range sets {
					early[i] = rep.AllocateCounter(fmt.Sprintf("early%d", i), t)
				}
				for i := 0; i < many; i++ {
					rep.AllocateCounter("filler", map[string]string{"k": strconv.Itoa(i), "some-longer-tag-name": "some-longer-tag-value-" + strconv.Itoa(i)})
				}
				for i := range early {
					early[i].ReportCount(int64(i + 1))
				}
				rep.Flush()
				rep.Close()
				sink.settle(150*time.Millisecond, 5*time.Second)
				proto := "c"
				if p == m3.Binary {
					proto = "b"
				}
				line := fmt.Sprintf("protocol=%s order=%d: counters early0..2 with tags %v allocated, then %d counters with distinct tag sets, then the early ones reported", proto, order, sets, many)
				seen := map[string]bool{}
				for _, pk := range sink.close() {
					if len(pk) > maxPkt {
						c.Cov.Fail(Failure{Kind: "violated", Clause: "datagram-le-max", Signature: "c13pool-datagram-too-large", Line: line, Reply: fmt.Sprintf("a datagram of %d bytes, MaxPacketSizeBytes %d", len(pk), maxPkt)})
					}
					_, batch, err := goDecodeMessage(proto, pk)
					if err != nil {
						continue
					}
					for _, m := range batch.Metrics {
						if !strings.HasPrefix(m.Name, "early") {
							continue
						}
						i, _ := strconv.Atoi(m.Name[5:])
						seen[m.Name] = true
						got := map[string]string{}
						for _, t := range m.Tags {
							got[t.Name] = t.Value
						}
						if i < 0 || i >= len(sets) || mapHex(got) != mapHex(sets[i]) || len(m.Tags) != len(sets[i]) {
							c.Cov.Fail(Failure{Kind: "violated", Clause: "tags-intact", Signature: "c13pool-early-metric-carries-other-tags", Line: line,
								Reply: fmt.Sprintf("%s was allocated with %v and arrives with %v", m.Name, sets[i%len(sets)], m.Tags)})
						}
					}
				}
				if len(seen) != len(sets) {
					c.Cov.Fail(Failure{Kind: "violated", Clause: "delivery-exactly-once", Signature: "c13pool-missing", Line: line, Reply: fmt.Sprintf("early metrics received: %v", seen)})
				}
				c.Cov.Eval(line, true)
			}
		}
	}
	c.Cov.Traces = c.Cov.Evaluations
}

// c14big: a metric whose serialized size exceeds what one packet can take (a tag value of 2000 / 40000 bytes with
// MaxPacketSizeBytes 1440 / the default) is reported, more metrics follow, then Flush and Close: every call returns
// (no deadlock, no goroutine spinning), Close returns nil and a second Close an error.
func init() {
	register("c14big", "C14", "", suiteC14Big)
}

func suiteC14Big(c *Ctx) {
	c.Cov.Rule = "an M3 reporter (both protocols; MaxPacketSizeBytes 1440 and the default) is handed a counter whose tag value alone is larger than a packet, then ordinary counters, Flush, Close, Close: all calls return within 6 s, the second Close reports an error; every case nontrivial"
	for _, p := range []m3.Protocol{m3.Compact, m3.Binary} {
		for _, cfg := range [][2]int{{1440, 2000}, {0, 40000}} {
			sink := newM3Sink()
			opts := m3.Options{HostPorts: []string{sink.addr()}, Service: "svc", Env: "test", Protocol: p, MaxQueueSize: 16}
			if cfg[0] > 0 {
				opts.MaxPacketSizeBytes = int32(cfg[0])
			}
			rep, err := m3.NewReporter(opts)
			must(err)
			line := fmt.Sprintf("protocol=%v MaxPacketSizeBytes=%d: a counter with a tag value of %d bytes, 40 ordinary counters, Flush, Close, Close", p, cfg[0], cfg[1])
			done := make(chan string, 1)
			go func() {
				big := rep.AllocateCounter("big", map[string]string{"payload": strings.Repeat("x", cfg[1])})
				big.ReportCount(1)
				for i := 0; i < 40; i++ {
					rep.AllocateCounter("small", map[string]string{"i": strconv.Itoa(i)}).ReportCount(1)
				}
				rep.Flush()
				e1 := rep.Close()
				e2 := rep.Close()
				done <- fmt.Sprintf("first Close: %v; second Close: error=%v", e1, e2 != nil)
			}()
			select {
			case r := <-done:
				if r != "first Close: <nil>; second Close: error=true" {
					c.Cov.Fail(Failure{Kind: "violated", Clause: "second-close-errors", Signature: "c14big-close-results", Line: line, Reply: r})
				}
			case <-time.After(6 * time.Second):
				c.Cov.Fail(Failure{Kind: "violated", Clause: "no-deadlock", Signature: "c14big-calls-do-not-return", Line: line, Reply: "report / Flush / Close have not returned after 6 s"})
			}
			sink.close()
			c.Cov.Eval(line, true)
		}
	}
	c.Cov.Traces = c.Cov.Evaluations
}
