package main

// C15 — UDP transport: one flush = one exact datagram; a failed message never poisons.
//
// suite c15    : the real TUDPTransport / TMultiUDPTransport against loopback UDP sinks; random
//                call sequences with chunk sizes concentrated around MaxLength and injected faults
//                (oversize write, socket closed through the back door, sink gone (ICMP errors),
//                writer abandoning / discarding / carrying on after a refusal, Close and use after
//                Close); every call is one protocol line, judged by the Lean driver (model + oracle).
// suite c15e2e : the real m3 reporter (m3.NewReporter) with a batch that cannot fit into one
//                datagram, followed by normal batches; datagrams decoded with thrift at the sink.

import (
	"bytes"
	"errors"
	"fmt"
	"net"
	"strconv"
	"strings"
	"syscall"
	"time"

	"github.com/uber-go/tally/v4/m3"
	m3thrift "github.com/uber-go/tally/v4/m3/thrift/v2"
	"github.com/uber-go/tally/v4/m3/thriftudp"
	"github.com/uber-go/tally/v4/thirdparty/github.com/apache/thrift/lib/go/thrift"
)

func init() {
	register("c15", "C15", "c15", suiteC15)
	register("c15e2e", "C15", "c15", suiteC15E2E)
}

const c15Max = thriftudp.MaxLength

// ---------------------------------------------------------------- wire encoding (run-length)

// rle encodes bytes as '.'-separated segments: lower-case hex, or xx*N for a run of N>=6 equal bytes.
func rle(b []byte) string {
	if len(b) == 0 {
		return "-"
	}
	var segs []string
	var lit []byte
	flush := func() {
		if len(lit) > 0 {
			segs = append(segs, hx(lit))
			lit = lit[:0]
		}
	}
	for i := 0; i < len(b); {
		j := i
		for j < len(b) && b[j] == b[i] {
			j++
		}
		if j-i >= 6 {
			flush()
			segs = append(segs, fmt.Sprintf("%02x*%d", b[i], j-i))
		} else {
			lit = append(lit, b[i:j]...)
		}
		i = j
	}
	flush()
	return strings.Join(segs, ".")
}

func dgramList(ds [][]byte) string {
	if len(ds) == 0 {
		return "_"
	}
	out := make([]string, len(ds))
	for i, d := range ds {
		out[i] = rle(d)
	}
	return strings.Join(out, ";")
}

// ---------------------------------------------------------------- loopback sink

type udpSink struct {
	conn    *net.UDPConn
	addr    *net.UDPAddr
	buf     []byte
	up      bool
	wasDown bool // a datagram may have been sent into the void: an ICMP error may be pending on the sender's socket
}

func newUDPSink() *udpSink {
	conn, err := net.ListenUDP("udp4", &net.UDPAddr{IP: net.IPv4(127, 0, 0, 1), Port: 0})
	must(err)
	_ = conn.SetReadBuffer(8 << 20)
	return &udpSink{conn: conn, addr: conn.LocalAddr().(*net.UDPAddr), buf: make([]byte, 1<<17), up: true}
}

func (s *udpSink) hostPort() string { return s.addr.String() }

// drain returns everything queued right now, without waiting.
func (s *udpSink) drain() [][]byte {
	if !s.up {
		return nil
	}
	var out [][]byte
	rc, err := s.conn.SyscallConn()
	must(err)
	for {
		n, got := 0, false
		must(rc.Read(func(fd uintptr) bool {
			m, _, e := syscall.Recvfrom(int(fd), s.buf, syscall.MSG_DONTWAIT)
			if e == nil {
				n, got = m, true
			}
			return true // never park: an empty queue is an answer
		}))
		if !got {
			return out
		}
		out = append(out, append([]byte(nil), s.buf[:n]...))
	}
}

// await waits up to d for at least one datagram (used only when the implementation itself said
// a send succeeded and nothing is queued yet), then drains.
func (s *udpSink) await(d time.Duration) [][]byte {
	if !s.up {
		return nil
	}
	deadline := time.Now().Add(d)
	for {
		if out := s.drain(); len(out) > 0 || time.Now().After(deadline) {
			return out
		}
		time.Sleep(200 * time.Microsecond)
	}
}

func (s *udpSink) down() {
	if s.up {
		s.conn.Close()
		s.up, s.wasDown = false, true
	}
}

func (s *udpSink) bringUp() bool {
	if s.up {
		return true
	}
	for i := 0; i < 50; i++ {
		conn, err := net.ListenUDP("udp4", s.addr)
		if err == nil {
			_ = conn.SetReadBuffer(8 << 20)
			s.conn, s.up = conn, true
			return true
		}
		time.Sleep(time.Millisecond)
	}
	return false
}

func (s *udpSink) close() { s.down() }

// ---------------------------------------------------------------- judged lines

// c15Check is Cov.Check with one difference: of every failure class (kind, clause, signature) only
// the first three are stored (the rest are counted), so that the many instances of a known
// finding cannot crowd a different violation out of the bounded failure list.
var c15Seen = map[string]int{}

func c15Check(c *Ctx, line, sig string) bool {
	reply := c.Drv.Ask(line)
	if reply == "ok" {
		return true
	}
	f := Failure{Signature: sig, Line: line, Reply: reply}
	switch {
	case strings.HasPrefix(reply, "differ"):
		f.Kind, f.Clause = "differ", "model-vs-implementation"
	case strings.HasPrefix(reply, "violated"):
		f.Kind = "violated"
		if parts := strings.Fields(reply); len(parts) > 1 {
			f.Clause = parts[1]
		}
	default:
		f.Kind, f.Clause = "bad-op", "protocol"
	}
	if len(f.Line) > 2000 {
		f.Line = f.Line[:2000] + "…"
	}
	key := f.Kind + "/" + f.Clause + "/" + f.Signature
	c15Seen[key]++
	if c15Seen[key] <= 3 {
		c.Cov.Fail(f)
	} else {
		c.Cov.Hit("failures.more." + key)
	}
	return false
}

// ---------------------------------------------------------------- error classes

func c15ErrClass(err error) string {
	if err == nil {
		return "nil"
	}
	var te thrift.TTransportException
	if errors.As(err, &te) {
		// NB thrift.INVALID_DATA (a *protocol* exception id) == thrift.NOT_OPEN == 1, so the type id
		// cannot tell the two apart; the message can.
		msg := strings.ToLower(te.Error())
		switch {
		case strings.Contains(msg, "not open"):
			return "not-open"
		case strings.Contains(msg, "fit within one udp packet"):
			return "too-large"
		}
	}
	var oe *net.OpError
	if errors.As(err, &oe) || errors.Is(err, net.ErrClosed) || errors.Is(err, syscall.ECONNREFUSED) {
		return "send-error"
	}
	return "other"
}

// ---------------------------------------------------------------- one transport under test

type c15Transport interface {
	Write([]byte) (int, error)
	Flush() error
	Close() error
	IsOpen() bool
}

type c15Case struct {
	c       *Ctx
	r       *Rng
	multi   bool
	k       int
	sinks   []*udpSink
	single  *thriftudp.TUDPTransport
	multiTr *thriftudp.TMultiUDPTransport
	tr      c15Transport
	profile string
	// the harness' own bookkeeping of what the caller has seen (for generation and signatures only)
	cur       []byte
	dirty     bool
	prevDirty bool
	closed    bool
	backdoor  bool
	opIdx     int
	failed    bool
	victim    int // the one destination whose sink may go away in this case
	faults    map[string]bool
	shape     []string
	lastFlush string      // error class of the most recent Flush
	deadline  bool        // the caller has set a write deadline through Conn() that has already expired
	dup       map[int]int // destination j is a second mention of destination dup[j] (same host:port, same sink)
}

func (cs *c15Case) envs() string {
	out := make([]string, cs.k)
	for i, s := range cs.sinks {
		switch {
		case !s.up:
			out[i] = "down"
		case (cs.backdoor && (!cs.multi || i == cs.victim)) || s.wasDown || cs.deadline:
			out[i] = "sock"
		default:
			out[i] = "ok"
		}
	}
	return strings.Join(out, ",")
}

func (cs *c15Case) anyFault() bool {
	if cs.backdoor {
		return true
	}
	for _, s := range cs.sinks {
		if !s.up || s.wasDown {
			return true
		}
	}
	return false
}

func (cs *c15Case) anyDown() bool {
	for _, s := range cs.sinks {
		if !s.up {
			return true
		}
	}
	return false
}

// collect gathers what arrived at every sink since the previous call.  Loopback delivery happens
// inside the send system call, so a plain drain is normally complete; to be safe against a
// deferred softirq, a flush that reported success is given up to 300 ms for its datagram, and a
// flush or close that reported an error a 1 ms grace before the queues are read.
var c15AwaitBudget = 15 * time.Second

func (cs *c15Case) collect(sendReportedOK, grace bool) [][][]byte {
	out := make([][][]byte, cs.k)
	if grace {
		time.Sleep(time.Millisecond)
	}
	for i, s := range cs.sinks {
		if _, shared := cs.dup[i]; shared {
			continue // a second mention of an earlier destination: its datagrams arrive at that sink, see below
		}
		out[i] = s.drain()
		if sendReportedOK && s.up && len(out[i]) == 0 {
			t0 := time.Now()
			// patient while patience is cheap: on the unchanged tree a datagram is at most late; an implementation that
			// drops datagrams wholesale would make every flush wait, so the long waits draw on a budget for the whole run
			wait := 2 * time.Second
			if c15AwaitBudget <= 0 {
				wait = 100 * time.Millisecond
			}
			out[i] = s.await(wait)
			if len(out[i]) == 0 {
				c15AwaitBudget -= time.Since(t0)
			}
			cs.c.Cov.Hit("sink.awaited")
			if len(out[i]) == 0 {
				cs.c.Cov.Hit("sink.await-timeout")
			} else if time.Since(t0) > 5*time.Millisecond {
				cs.c.Cov.Hit("sink.await-slow")
			}
		}
	}
	// a destination listed twice: every Flush sends the message to it twice, one send right after the other, so the
	// sink holds every datagram twice in a row; each mention is credited with one copy.  Anything else (an odd
	// number, two different neighbours) is left with the first mention, where it cannot match the model.
	for j, i := range cs.dup {
		d := out[i]
		ok := len(d)%2 == 0
		for m := 0; ok && m < len(d); m += 2 {
			ok = string(d[m]) == string(d[m+1])
		}
		if ok {
			var half [][]byte
			for m := 0; m < len(d); m += 2 {
				half = append(half, d[m])
			}
			out[i], out[j] = half, append([][]byte(nil), half...)
		}
	}
	return out
}

func recvToken(recv [][][]byte) string {
	out := make([]string, len(recv))
	for i, ds := range recv {
		out[i] = dgramList(ds)
	}
	return strings.Join(out, "|")
}

func (cs *c15Case) stateClass(chunkLen int) string {
	switch {
	case cs.closed:
		return "closed"
	case cs.dirty:
		return "after-refusal"
	case cs.backdoor:
		return "socket-closed"
	case cs.anyFault():
		return "sink-down"
	case chunkLen >= 0 && len(cs.cur)+chunkLen >= c15Max-1 && len(cs.cur)+chunkLen <= c15Max+1:
		return "at-limit"
	case chunkLen >= 0 && len(cs.cur)+chunkLen > c15Max:
		return "oversize"
	}
	return "clean"
}

// signature: the class of the failing input and of what was observed — never of the driver's reply.
func (cs *c15Case) signature(kind string, chunkLen int, errc string, recv [][][]byte) string {
	pre := ""
	if cs.multi {
		pre = "multi-"
	}
	isWrite := kind == "write" || kind == "wbyte" || kind == "wstring"
	anyRecv, glued := false, false
	for _, ds := range recv {
		for _, d := range ds {
			anyRecv = true
			if len(d) > len(cs.cur) && string(d[len(d)-len(cs.cur):]) == string(cs.cur) {
				glued = true
			}
		}
	}
	stale := "stale-bytes-after-refused-write"
	switch {
	case !cs.closed && isWrite && cs.dirty && errc == "nil":
		return pre + stale // a write accepted into a message that already had a refusal
	case !cs.closed && kind == "flush" && cs.dirty && (anyRecv || errc != "too-large"):
		return pre + stale // a message with a refused write was (partly) sent, or at least not discarded
	case !cs.closed && kind == "flush" && !cs.dirty && cs.prevDirty && cs.multi && glued:
		return pre + stale // the message after one with a refusal arrived behind stale bytes
	}
	return pre + kind + "-" + cs.stateClass(chunkLen)
}

// ask sends one observed call to the driver; on anything but `ok` the case is over.
func (cs *c15Case) ask(kind, arg string, chunkLen int, n int, err error, recv [][][]byte) {
	errc := c15ErrClass(err)
	line := "op " + kind
	if arg != "" {
		line += " " + arg
	}
	line += fmt.Sprintf(" => %d %s %s", n, errc, recvToken(recv))
	sig := cs.signature(kind, chunkLen, errc, recv)
	cs.c.Cov.Hit("op." + kind)
	cs.c.Cov.Hit("err." + kind + "." + errc)
	if !c15Check(cs.c, line, sig) {
		cs.failed = true
	}
	cs.opIdx++
}

func (cs *c15Case) noteWrite(chunk []byte, err error) {
	if cs.closed {
		return
	}
	if err == nil {
		if len(cs.cur)+len(chunk) == c15Max {
			cs.c.Cov.Hit("write.exact-fill")
			cs.faults["exact-fill"] = true
		}
		cs.cur = append(cs.cur, chunk...)
	} else {
		if len(cs.cur)+len(chunk) == c15Max+1 {
			cs.c.Cov.Hit("write.over-by-one")
		}
		if c15ErrClass(err) == "too-large" {
			cs.faults["oversize"] = true
		}
		cs.dirty = true
	}
}

func (cs *c15Case) doWrite(kind string, chunk []byte) {
	if kind == "wbyte" && len(chunk) != 1 {
		chunk = cs.chunk(1)
	}
	var n int
	var err error
	pan, val := catch(func() {
		switch kind {
		case "write":
			n, err = cs.tr.Write(chunk)
		case "wstring":
			n, err = cs.single.WriteString(string(chunk))
		case "wbyte":
			err = cs.single.WriteByte(chunk[0])
		}
	})
	if pan {
		cs.crash(kind, val)
		return
	}
	recv := cs.collect(false, false)
	cs.shape = append(cs.shape, fmt.Sprintf("%s%d", kind[:2], len(chunk)))
	cs.ask(kind, rle(chunk), len(chunk), n, err, recv)
	cs.noteWrite(chunk, err)
}

func (cs *c15Case) doFlush() {
	var err error
	envs := cs.envs()
	pan, val := catch(func() { err = cs.tr.Flush() })
	if pan {
		cs.crash("flush", val)
		return
	}
	recv := cs.collect(err == nil, err != nil)
	cs.shape = append(cs.shape, "fl")
	if len(cs.cur) == 0 && !cs.dirty && !cs.closed {
		cs.c.Cov.Hit("flush.empty-message")
	}
	if cs.dirty && !cs.closed {
		cs.c.Cov.Hit("flush.after-refusal")
	}
	for _, ds := range recv {
		for _, d := range ds {
			if len(d) == c15Max {
				cs.c.Cov.Hit("datagram.max-size")
			}
			if len(d) > c15Max {
				cs.c.Cov.Hit("datagram.over-max")
			}
		}
	}
	if c15ErrClass(err) == "send-error" {
		cs.faults["send-error"] = true
		if !cs.backdoor {
			cs.c.Cov.Hit("flush.icmp-error")
		}
	}
	// model-independent, multi transport: whatever happens to the other destinations, one whose sink is up and whose
	// socket nothing has happened to receives exactly this message, as one datagram ("the next message is transmitted
	// complete, alone and uncorrupted"; every write and flush goes to every destination)
	if cs.multi && cs.dup == nil && !cs.closed && !cs.dirty && !cs.prevDirty && len(cs.cur) > 0 && len(cs.cur) <= c15Max && !cs.failed {
		envl := strings.Split(envs, ",")
		for i := range recv {
			if i >= len(envl) || envl[i] != "ok" {
				continue
			}
			if len(recv[i]) == 0 {
				recv[i] = cs.sinks[i].await(300 * time.Millisecond)
			}
			if len(recv[i]) != 1 || !bytes.Equal(recv[i][0], cs.cur) {
				lens := make([]int, len(recv[i]))
				for j, d := range recv[i] {
					lens[j] = len(d)
				}
				cs.c.Cov.Fail(Failure{Kind: "violated", Clause: "delivered-exactly", Signature: "multi-healthy-destination-not-served", Line: "flush " + envs + " after " + strings.Join(cs.shape, ","),
					Reply: fmt.Sprintf("destination %d of %d (sink up, socket untouched) should receive this message of %d bytes as one datagram; it received datagrams of lengths %v", i, cs.k, len(cs.cur), lens)})
				break
			}
		}
	}
	cs.ask("flush", envs, -1, 0, err, recv)
	cs.lastFlush = c15ErrClass(err)
	if !cs.closed {
		cs.prevDirty = cs.dirty
		cs.cur, cs.dirty = nil, false
	}
}

func (cs *c15Case) doClose() {
	var err error
	envs := cs.envs()
	pan, val := catch(func() { err = cs.tr.Close() })
	if pan {
		cs.crash("close", val)
		return
	}
	recv := cs.collect(false, true)
	cs.shape = append(cs.shape, "cl")
	if cs.closed {
		cs.c.Cov.Hit("close.again")
	}
	cs.ask("close", envs, -1, 0, err, recv)
	cs.closed = true
	cs.faults["close"] = true
}

func (cs *c15Case) doIsOpen() {
	var open bool
	pan, val := catch(func() { open = cs.tr.IsOpen() })
	if pan {
		cs.crash("isopen", val)
		return
	}
	n := 0
	if open {
		n = 1
	}
	recv := cs.collect(false, false)
	cs.shape = append(cs.shape, "io")
	cs.ask("isopen", "", -1, n, nil, recv)
}

func (cs *c15Case) crash(kind string, val interface{}) {
	cs.failed = true
	clause := "no-panic"
	cs.c.Cov.Fail(Failure{Kind: "crash", Clause: clause, Signature: cs.signature(kind, -1, "panic", nil) + "-panic",
		Line: "op " + kind, Reply: fmt.Sprint(val)})
}

// chunk content: a few random bytes, a long run of one fill byte that depends on the call index,
// a random last byte — every write is recognisable in a datagram, and the line stays short.
func (cs *c15Case) chunk(n int) []byte {
	b := make([]byte, n)
	fill := byte(1 + (cs.opIdx*7+3)%250)
	for i := range b {
		b[i] = fill
	}
	for i := 0; i < 3 && i < n; i++ {
		b[i] = byte(cs.r.Intn(256))
	}
	if n > 0 {
		b[n-1] = byte(cs.r.Intn(256))
	}
	return b
}

// sizes: concentrated around the limit and around what still fits
func (cs *c15Case) pickSize(mode string) int {
	room := c15Max - len(cs.cur)
	if room < 0 {
		room = 0
	}
	r := cs.r
	switch mode {
	case "fit": // never exceeds the room
		switch r.Intn(10) {
		case 0:
			return 0
		case 1:
			return room // exactly fills
		case 2:
			if room > 0 {
				return room - 1
			}
			return 0
		case 3:
			if room >= 40000 {
				return 40000
			}
			return r.Intn(room + 1)
		case 4:
			if room >= 25000 {
				return 25000
			}
			return r.Intn(room + 1)
		case 5:
			return r.Intn(room + 1)
		default:
			n := r.Range(1, 64)
			if n > room {
				n = room
			}
			return n
		}
	case "limit": // ±1 around the room and around MaxLength
		return []int{room, room + 1, max0(room - 1), c15Max, c15Max + 1, c15Max - 1, 64999, 65000, 65001, 1, 0}[r.Intn(11)]
	default: // "big": certainly or probably too much
		return []int{room + 1, room + 1 + r.Intn(100), 40000, 65001, 65507, 70000, 131072, room + 40000}[r.Intn(8)]
	}
}

func max0(x int) int {
	if x < 0 {
		return 0
	}
	return x
}

func (cs *c15Case) writeKind() string {
	if cs.multi {
		return "write"
	}
	return []string{"write", "write", "wstring", "wbyte"}[cs.r.Intn(4)]
}

func (cs *c15Case) genWrite(mode string) {
	kind := cs.writeKind()
	n := cs.pickSize(mode)
	if kind == "wbyte" {
		// WriteByte is interesting when one byte is (not) left
		if mode != "fit" && cs.r.Chance(50) && len(cs.cur) < c15Max-1 && !cs.dirty && !cs.closed {
			pad := c15Max - len(cs.cur) - cs.r.Intn(2)
			cs.doWrite("write", cs.chunk(pad))
			if cs.failed {
				return
			}
		}
		n = 1
	}
	cs.doWrite(kind, cs.chunk(n))
}

// run generates and executes one case according to its profile
func (cs *c15Case) run() {
	r := cs.r
	nMsgs := r.Range(2, 6)
	for m := 0; m < nMsgs && !cs.failed; m++ {
		// environment faults between messages or in the middle of one
		if cs.profile == "backdoor" && !cs.backdoor && !cs.closed && r.Chance(40) {
			if r.Bool() { // in the middle of a message that nearly fills the buffer
				cs.doWrite("write", cs.chunk(40000))
			}
			if cs.multi {
				// one destination's socket is closed behind the multi transport's back (verif-tagged accessor)
				cs.multiTr.VerifConn(cs.victim).Close()
				cs.c.Cov.Hit(fmt.Sprintf("fault.backdoor-multi.destination-%d-of-%d", cs.victim, cs.k))
			} else {
				cs.single.Conn().Close()
			}
			cs.backdoor = true
			cs.faults["backdoor"] = true
			cs.c.Cov.Hit("fault.backdoor")
		}
		if cs.profile == "deadline" && !cs.closed && !cs.deadline && r.Chance(55) {
			// a send fault of another kind: the caller set a write deadline on the connection and it has expired when the
			// message is flushed (conn.Write fails with a timeout); the deadline is lifted after that flush
			if r.Bool() {
				cs.doWrite("write", cs.chunk(r.Range(1, 40000)))
			}
			cs.single.Conn().SetWriteDeadline(time.Now().Add(-time.Second))
			cs.deadline = true
			cs.faults["deadline"] = true
			cs.c.Cov.Hit("fault.write-deadline-expired")
		}
		if cs.profile == "sinkdown" && !cs.closed {
			if !cs.anyDown() && r.Chance(60) {
				cs.sinks[cs.victim].down()
				cs.faults["sinkdown"] = true
				cs.c.Cov.Hit("fault.sinkdown")
			} else if cs.anyDown() && r.Chance(60) {
				for _, s := range cs.sinks {
					if !s.bringUp() {
						cs.c.Cov.Hit("fault.sinkup-failed")
						return
					}
				}
				cs.c.Cov.Hit("fault.sinkup")
			}
		}
		nW := r.Range(0, 4)
		overflowAt := -1
		switch cs.profile {
		case "oversize", "chaos":
			if r.Chance(60) {
				overflowAt = r.Intn(nW + 1)
			}
		}
		for w := 0; w <= nW && !cs.failed; w++ {
			mode := "fit"
			switch {
			case w == overflowAt:
				mode = "big"
			case cs.profile == "limit" || (cs.profile == "chaos" && r.Chance(30)):
				mode = "limit"
			case cs.profile == "backdoor" && r.Chance(40):
				mode = "limit"
			}
			if w == nW && w != overflowAt {
				break
			}
			cs.genWrite(mode)
			if cs.failed {
				return
			}
			if cs.dirty && !cs.closed {
				// what the writer does after a refusal
				switch r.Intn(4) {
				case 0: // abandons the message without flushing (the generated thrift client) and starts the next one
					cs.c.Cov.Hit("writer.abandons")
					cs.faults["abandon"] = true
					w = nW + 1
					m++
					for j := r.Range(1, 3); j > 0 && !cs.failed; j-- {
						cs.doWrite(cs.writeKind(), cs.chunk(r.Range(1, 48)))
					}
				case 1: // abandons and discards with one Flush (the repaired reporter)
					cs.c.Cov.Hit("writer.discards")
					w = nW + 1
				case 2: // carries on writing into the same message
					cs.c.Cov.Hit("writer.carries-on")
				default: // retries something smaller
					cs.c.Cov.Hit("writer.retries-smaller")
					cs.doWrite(cs.writeKind(), cs.chunk(r.Range(0, 8)))
				}
			}
		}
		if cs.failed {
			return
		}
		if r.Chance(8) {
			cs.doIsOpen()
		}
		if cs.failed {
			return
		}
		cs.doFlush()
		if cs.deadline {
			if !cs.closed {
				cs.single.Conn().SetWriteDeadline(time.Time{})
			}
			cs.deadline = false
		}
		if cs.failed {
			return
		}
		if cs.lastFlush == "send-error" && !cs.closed && r.Chance(60) {
			// is the buffer empty after a failed send?  A write of MaxLength (or one less) fits only if it is.
			cs.c.Cov.Hit("probe.full-write-after-failed-send")
			cs.doWrite("write", cs.chunk(c15Max-r.Intn(2)))
			if cs.failed {
				return
			}
		}
		if cs.profile == "sinkdown" && cs.anyDown() && r.Chance(70) { // a second flush meets the ICMP error
			cs.doWrite("write", cs.chunk(r.Range(1, 32)))
			if !cs.failed {
				cs.doFlush()
			}
		}
		if (cs.profile == "close" || cs.profile == "chaos") && !cs.closed && r.Chance(35) {
			if r.Bool() {
				cs.doWrite("write", cs.chunk(r.Range(1, 100))) // close with bytes buffered: they must never be sent
			}
			if !cs.failed {
				cs.doClose()
			}
		}
	}
	if cs.failed {
		return
	}
	// the end: sometimes close, and poke the closed transport
	// (not after one destination of a MULTI transport was closed behind its back: that state is reachable only through
	// the verif-tagged accessor, and Close on it - which stops at the first destination whose Close fails - is outside
	// what C15 says about Close; the messages before it are judged as everywhere else)
	if !cs.closed && (cs.profile == "close" || r.Chance(30)) && !(cs.multi && cs.backdoor) {
		cs.doClose()
	}
	if cs.closed && !cs.failed {
		for j := r.Range(1, 5); j > 0 && !cs.failed; j-- {
			switch r.Intn(6) {
			case 0:
				cs.doFlush()
			case 1:
				cs.doClose()
			case 2:
				cs.doIsOpen()
			default:
				cs.doWrite(cs.writeKind(), cs.chunk([]int{0, 1, 5, 65000, 65001}[r.Intn(5)]))
			}
		}
	}
}

func suiteC15(c *Ctx) {
	c.Cov.Rule = "one case = one real transport (TUDPTransport, or TMultiUDPTransport over 1/2/3 destinations) with a loopback sink per destination, a random call sequence by profile " +
		"(clean: every write fits, incl. empty and exactly-filling ones; limit: sizes room-1/room/room+1/64999/65000/65001; oversize: a write that cannot fit at a random position, after which the writer abandons without flushing / discards with one Flush / carries on / retries smaller; " +
		"backdoor: trans.Conn().Close() behind the transport's back; sinkdown: a sink goes away and comes back (lost datagram, then ECONNREFUSED); deadline: a write deadline set through Conn() has expired when a message is flushed (timeout error); close: Close mid-message, Close twice, use after Close; chaos: all of these); " +
		"every call is one judged line (result and datagrams received since the previous call, byte for byte, run-length encoded); a case ends at its first failure. " +
		"nontrivial = the case contains an observed fault (refused write, send error, back-door close, sink down, Close followed by further calls) or a write that fills the buffer exactly; distinct by (mode, k, profile, sequence of call kinds and sizes)"
	n := c.N(260, 4000)
	profiles := []string{"clean", "clean", "clean", "limit", "limit", "oversize", "oversize", "oversize", "backdoor", "backdoor", "sinkdown", "sinkdown", "close", "chaos", "deadline", "deadline"}
	for i := 0; i < n; i++ {
		r := c.Rng.Fork()
		cs := &c15Case{c: c, r: r, faults: map[string]bool{}}
		cs.profile = profiles[r.Intn(len(profiles))]
		cs.multi = r.Chance(35)
		cs.k = 1
		if cs.multi {
			cs.k = []int{1, 2, 3, 3, 4}[r.Intn(5)]
			if cs.profile == "deadline" { // the multi transport does not expose its connections (backdoor: through the verif-tagged accessor)
				cs.profile = "sinkdown"
			}
		}
		for j := 0; j < cs.k; j++ {
			cs.sinks = append(cs.sinks, newUDPSink())
		}
		// (only in profiles without socket faults: which of the two sends to the shared sink a refused datagram belongs to
		// cannot be told from what the sink holds)
		if cs.multi && cs.k >= 2 && r.Chance(25) && (cs.profile == "clean" || cs.profile == "limit" || cs.profile == "oversize" || cs.profile == "close") {
			// the same host:port listed twice (a copy-and-paste in a configuration): two destinations all the same
			cs.sinks[cs.k-1].close()
			cs.sinks[cs.k-1] = cs.sinks[0]
			cs.dup = map[int]int{cs.k - 1: 0}
			c.Cov.Hit("multi.destination-listed-twice")
		}
		cs.victim = r.Intn(cs.k)
		mode := "single"
		if cs.multi {
			hps := make([]string, cs.k)
			for j, s := range cs.sinks {
				hps[j] = s.hostPort()
			}
			t, err := thriftudp.NewTMultiUDPClientTransport(hps, "")
			must(err)
			cs.tr, cs.multiTr = t, t
			mode = "multi"
		} else {
			t, err := thriftudp.NewTUDPClientTransport(cs.sinks[0].hostPort(), "")
			must(err)
			cs.single, cs.tr = t, t
		}
		if reply := c.Drv.Ask(fmt.Sprintf("begin %s %d %d", mode, cs.k, c.Seed)); reply != "ok" {
			c.Cov.Fail(Failure{Kind: "bad-op", Clause: "protocol", Signature: "begin", Line: "begin", Reply: reply})
			return
		}
		cs.run()
		reply := c.Drv.Ask("end")
		if !strings.HasPrefix(reply, "stats ") {
			kind := "bad-op"
			clause := "protocol"
			if strings.HasPrefix(reply, "violated") {
				kind, clause = "violated", "delivered-exactly"
			}
			c.Cov.Fail(Failure{Kind: kind, Clause: clause, Signature: mode + "-end", Line: "end " + strings.Join(cs.shape, ","), Reply: reply})
		}
		if !cs.closed {
			catch(func() { cs.tr.Close() })
		}
		for _, s := range cs.sinks {
			s.close()
		}
		nontrivial := len(cs.faults) > 0
		key := fmt.Sprintf("%s k=%d %s %s", mode, cs.k, cs.profile, strings.Join(cs.shape, ","))
		c.Cov.Eval(key, nontrivial)
		c.Cov.Hit("profile." + cs.profile)
		c.Cov.Hit(fmt.Sprintf("mode.%s.k%d", mode, cs.k))
		for f := range cs.faults {
			c.Cov.Hit("case-with." + f)
		}
		c.Cov.Traces++
	}
}

// ---------------------------------------------------------------- end to end through m3.NewReporter

type e2eBatch struct {
	names []string
	fits  bool
}

// decodeBatch decodes one datagram as exactly one emitMetricBatchV2 message.
func decodeBatch(proto m3.Protocol, data []byte) (names []string, ok bool) {
	pan, _ := catch(func() {
		buf := thrift.NewTMemoryBuffer()
		buf.Write(data)
		var p thrift.TProtocol
		if proto == m3.Compact {
			p = thrift.NewTCompactProtocol(buf)
		} else {
			p = thrift.NewTBinaryProtocolTransport(buf)
		}
		name, _, _, err := p.ReadMessageBegin()
		if err != nil || name != "emitMetricBatchV2" {
			return
		}
		args := m3thrift.M3EmitMetricBatchV2Args{}
		if err := args.Read(p); err != nil {
			return
		}
		if err := p.ReadMessageEnd(); err != nil {
			return
		}
		if buf.Len() != 0 {
			return
		}
		for _, m := range args.Batch.Metrics {
			if strings.HasPrefix(m.Name, "c15.") {
				names = append(names, m.Name)
			}
		}
		ok = true
	})
	if pan {
		return nil, false
	}
	return names, ok
}

func namesToken(ns []string) string {
	if len(ns) == 0 {
		return "-"
	}
	out := make([]string, len(ns))
	for i, n := range ns {
		out[i] = hxs(n)
	}
	return strings.Join(out, ",")
}

func suiteC15E2E(c *Ctx) {
	c.Cov.Rule = "one scenario = a real m3 reporter (m3.NewReporter; Compact or Binary; 1 or 2 HostPorts) on loopback sinks: 0-2 small batches, then a batch that cannot fit into one datagram " +
		"(oversize-metric: one counter with a 70000-byte tag value; oversize-batch: MaxPacketSizeBytes=200000 and 80-180KB of counters with names of random length in one batch, so that the refused write is a name, a field header, a varint or a tag depending on the scenario), then 1-3 small batches, reporter.Flush() after each, Close at the end; " +
		"every datagram at every sink is decoded as exactly one thrift emitMetricBatchV2 message (else `garbled`) and the judged names (prefix c15.) are compared with the batches that fit; " +
		"clean scenarios (no oversize batch) are the control. nontrivial = the scenario contains a batch that cannot fit; distinct by (kind, protocol, hosts, batch sizes)"
	n := c.N(10, 60)
	for i := 0; i < n; i++ {
		r := c.Rng.Fork()
		kind := []string{"oversize-metric", "oversize-batch", "oversize-metric", "oversize-batch", "clean"}[i%5]
		proto := m3.Compact
		if r.Chance(40) {
			proto = m3.Binary
		}
		hosts := 1
		if r.Chance(30) {
			hosts = 2
		}
		sinks := make([]*udpSink, hosts)
		hps := make([]string, hosts)
		for j := range sinks {
			sinks[j] = newUDPSink()
			hps[j] = sinks[j].hostPort()
		}
		opts := m3.Options{HostPorts: hps, Service: "c15svc", Env: "test", Protocol: proto, MaxQueueSize: 1 << 15}
		if kind == "oversize-batch" {
			opts.MaxPacketSizeBytes = 200000
		}
		var rep m3.Reporter
		var err error
		pan, val := catch(func() { rep, err = m3.NewReporter(opts) })
		if pan || err != nil {
			c.Cov.Fail(Failure{Kind: "crash", Clause: "no-panic", Signature: "reporter-construct", Line: kind, Reply: fmt.Sprint(val, err)})
			continue
		}
		var batches []e2eBatch
		mk := func(b int, cnt int, nameLen int) e2eBatch {
			var eb e2eBatch
			for j := 0; j < cnt; j++ {
				nm := fmt.Sprintf("c15.s%d.b%d.m%d", i, b, j)
				for len(nm) < nameLen {
					nm += "x"
				}
				eb.names = append(eb.names, nm)
			}
			eb.fits = true
			return eb
		}
		emit := func(eb e2eBatch, tagVal string) {
			for _, nm := range eb.names {
				tags := map[string]string{"t": "v"}
				if tagVal != "" {
					tags["big"] = tagVal
				}
				rep.AllocateCounter(nm, tags).ReportCount(1)
			}
			rep.Flush()
		}
		pan, val = catch(func() {
			bi := 0
			for j := r.Intn(3); j > 0; j-- {
				eb := mk(bi, r.Range(1, 5), 0)
				bi++
				emit(eb, "")
				batches = append(batches, eb)
			}
			switch kind {
			case "oversize-metric":
				eb := mk(bi, 1, 0)
				bi++
				eb.fits = false
				emit(eb, strings.Repeat("v", 70000))
				batches = append(batches, eb)
			case "oversize-batch":
				// counters with names of random length until the batch is 80..110 KB by a low estimate
				// (well under MaxPacketSizeBytes, so the reporter emits it as ONE message): the write that
				// is refused is a name in some scenarios and a field header, varint or tag in others
				var eb e2eBatch
				target, est := r.Range(80000, 110000), 0
				for j := 0; est < target; j++ {
					nm := fmt.Sprintf("c15.s%d.b%d.m%d", i, bi, j)
					for want := r.Range(20, 120); len(nm) < want; {
						nm += "x"
					}
					eb.names = append(eb.names, nm)
					est += len(nm) + 40
				}
				bi++
				eb.fits = false
				emit(eb, "")
				batches = append(batches, eb)
			}
			for j := r.Range(1, 3); j > 0; j-- {
				eb := mk(bi, r.Range(1, 5), 0)
				bi++
				emit(eb, "")
				batches = append(batches, eb)
			}
			rep.Close() // waits for the processing goroutine: everything that will ever be sent has been sent
		})
		if pan {
			c.Cov.Fail(Failure{Kind: "crash", Clause: "no-panic", Signature: "reporter-" + kind + "-panic", Line: kind, Reply: fmt.Sprint(val)})
			continue
		}
		bt := make([]string, len(batches))
		shape := make([]string, len(batches))
		for j, b := range batches {
			f := "1"
			if !b.fits {
				f = "0"
			}
			bt[j] = f + ":" + namesToken(b.names)
			shape[j] = f + "x" + strconv.Itoa(len(b.names))
		}
		for si, s := range sinks {
			time.Sleep(2 * time.Millisecond)
			ds := s.drain()
			dt := make([]string, len(ds))
			for j, d := range ds {
				if names, ok := decodeBatch(proto, d); ok {
					dt[j] = fmt.Sprintf("c:%d:%s", len(d), namesToken(names))
					c.Cov.Hit("datagram.clean")
				} else {
					dt[j] = fmt.Sprintf("g:%d", len(d))
					c.Cov.Hit("datagram.garbled")
				}
			}
			line := "e2e " + joinListU(bt) + " => " + joinListU(dt)
			sig := "reporter-" + kind
			switch kind {
			case "oversize-metric":
				sig = "reporter-stale-bytes-after-oversize-metric"
			case "oversize-batch":
				sig = "reporter-stuck-after-oversize-batch"
			}
			if hosts > 1 {
				sig = "multi-" + sig
			}
			c15Check(c, line, sig)
			c.Cov.HitN(fmt.Sprintf("sink%d.datagrams", si), len(ds))
		}
		for _, s := range sinks {
			s.close()
		}
		pn := "compact"
		if proto == m3.Binary {
			pn = "binary"
		}
		c.Cov.Eval(fmt.Sprintf("%s %s hosts=%d %s", kind, pn, hosts, strings.Join(shape, ",")), kind != "clean")
		c.Cov.Hit("kind." + kind)
		c.Cov.Hit("proto." + pn)
		c.Cov.Hit(fmt.Sprintf("hosts.%d", hosts))
		c.Cov.Traces++
	}
}

func joinListU(items []string) string {
	if len(items) == 0 {
		return "_"
	}
	return strings.Join(items, ";")
}
