package main

import (
	"fmt"
	"strings"

	tally "github.com/uber-go/tally/v4"
)

// histpass: a sample is recorded on an already registered histogram WHILE a report pass is walking its buckets (the
// pass is parked at the delivery of one bucket; the sample goes to a bucket the walk has already passed, to the one
// being delivered, or to one still ahead).  "Recording and reporting may be used concurrently ... everything recorded
// through any of the returned handles is delivered" (C09); bucket counts are delivered by the counters' mechanism
// (C01: exactly once after one more report; C03: the counts delivered add up to the samples recorded).  After the
// pass has finished, two more passes run and the root is closed: the bucket counts delivered add up to the samples
// recorded, each in its own bucket.

func init() {
	register("histpass", "C09", "", suiteHistPass)
}

func runHistPass(c *Ctx, cached bool, parkAt int, recordInto int) {
	w := newWorld(cached, 0, 1, false)
	h := w.root.SubScope("s").Histogram("h", tally.ValueBuckets{10, 20, 30})
	vals := []float64{5, 15, 25, 35} // one value per bucket: (-inf,10] (10,20] (20,30] (30,inf)
	// one sample in every bucket before the pass, so that the walk delivers (and parks) at every bucket
	for _, v := range vals {
		h.RecordValue(v)
	}
	want := map[int]int64{0: 1, 1: 1, 2: 1, 3: 1}
	s := NewSched(nil)
	seen := 0
	s.ParkOnT = func(th, l string) bool {
		if th == "P" && l == "histogram.deliver" {
			seen++
			return seen == parkAt+1
		}
		return false
	}
	P := s.Spawn("P", func() { tally.VerifReportOnce(w.root) })
	l0 := runUntil(s, P, func(l, _ string) bool { return l == "histogram.deliver" })
	trace := []string{fmt.Sprintf("cached=%v; one sample in each of 4 buckets; pass parked at the delivery of bucket %d (%s)", cached, parkAt, l0)}
	h.RecordValue(vals[recordInto])
	want[recordInto]++
	trace = append(trace, fmt.Sprintf("a sample is recorded into bucket %d", recordInto))
	trace = append(trace, "pass "+runUntil(s, P, never))
	s.Finish()
	tally.VerifReportOnce(w.root)
	tally.VerifReportOnce(w.root)
	w.closer.Close()
	got := map[string]int64{}
	total := int64(0)
	for _, e := range w.log().Snapshot() {
		switch e.Kind {
		case "hval":
			got[f64hex(e.HiF)] += e.I
			total += e.I
		case "samples":
			got[fmt.Sprint(e.Idx)] += e.I
			total += e.I
		}
	}
	line := strings.Join(trace, " | ") + " | pass | pass | root Close"
	if total != 5 {
		c.Cov.Fail(Failure{Kind: "violated", Clause: "recorded-through-any-handle-delivered", Signature: "histpass-sample-recorded-during-a-pass",
			Line: line, Reply: fmt.Sprintf("5 samples recorded, the bucket counts delivered add up to %d (per bucket %v, expected per bucket index %v)", total, got, want)})
	}
	c.Cov.Hit(fmt.Sprintf("park=%d record=%d", parkAt, recordInto))
	c.Cov.Eval(line, true)
	c.Cov.Schedules++
}

func suiteHistPass(c *Ctx) {
	c.Cov.Rule = "EXHAUSTIVE over (plain / cached reporter) x (the bucket at whose delivery the pass is parked, 0..3) x (the bucket the concurrent sample goes to, 0..3): a histogram with one sample in each of its 4 buckets, a pass parked at the delivery hook of one bucket, one more sample recorded, the pass finishes, two more passes, root Close; oracle: the bucket counts delivered add up to the 5 samples recorded; every case nontrivial"
	c.Cov.Exhaustive = true
	for _, cached := range []bool{false, true} {
		for park := 0; park < 4; park++ {
			for rec := 0; rec < 4; rec++ {
				runHistPass(c, cached, park, rec)
			}
		}
	}
	c.Cov.Traces = c.Cov.Schedules
}
