package main

import (
	"fmt"
	"os"
	"os/exec"
	"path/filepath"
	"sort"
	"strings"
	"time"
)

// racescope: "All of the scope API, recording and reporting may be used concurrently without data races" (C09; the
// snapshot clause of C11, the loop and Close of C08 run in it as well).  A dedicated test package (harness/racescope)
// is compiled with the race detector and hammers the whole scope API from six goroutines -- first uses of a small pool
// of names and subscopes, recording, stopwatches, closing and re-obtaining subscopes -- against report passes, the
// report loop (200us ticker), snapshots of a test scope, and the root's Close arriving in the middle; plain, cached
// and reporter-less roots, 1 and 4 shards.  Every "WARNING: DATA RACE" block is a violation (the test's own reporters
// touch their state through atomics only); a panic or a runtime fatal error too.  The interleaving model cannot express
// a data race in the sense of the Go memory model: this clause is carried by the detector alone (DESIGN section 8).

func init() { register("racescope", "C09", "", suiteRaceScope) }

func raceClassify(out string) map[string]string {
	res := map[string]string{}
	for _, blk := range strings.Split(out, "WARNING: DATA RACE")[1:] {
		if i := strings.Index(blk, "=================="); i >= 0 {
			blk = blk[:i]
		}
		var tops []string
		lines := strings.Split(blk, "\n")
		for i, l := range lines {
			l = strings.TrimSpace(l)
			if (strings.HasPrefix(l, "Write at") || strings.HasPrefix(l, "Read at") || strings.HasPrefix(l, "Previous write at") || strings.HasPrefix(l, "Previous read at") ||
				strings.HasPrefix(l, "Atomic") || strings.HasPrefix(l, "Previous atomic")) && i+1 < len(lines) {
				t := strings.TrimSpace(lines[i+1])
				if j := strings.LastIndex(t, "/"); j >= 0 {
					t = t[j+1:]
				}
				tops = append(tops, strings.TrimSuffix(t, "()"))
			}
		}
		sort.Strings(tops)
		k := "race-" + strings.Join(tops, "+")
		if _, ok := res[k]; !ok {
			res[k] = "WARNING: DATA RACE" + blk[:min(len(blk), 1800)]
		}
	}
	return res
}

func suiteRaceScope(c *Ctx) {
	c.Cov.Rule = "Go race detector: a dedicated test binary (harness/racescope, go test -race -tags verif -c) hammers the scope API from 6 goroutines (first uses of 5 names x 4 kinds on the root and on 7 derived scopes, recording, stopwatches, Capabilities, closing and re-obtaining subscopes) against report passes, the report loop (200us ticker), snapshots (test scope) and the root's Close arriving mid-way; plain / cached / reporter-less roots, 1 and 4 shards; every DATA RACE block, panic or fatal error is a violation; one evaluation per test function and repetition, all nontrivial"
	dir := c14HarnessDir()
	tmp, err := os.MkdirTemp("", "racescope")
	must(err)
	defer os.RemoveAll(tmp)
	bin := filepath.Join(tmp, "racescope.test")
	env := []string{}
	for _, e := range os.Environ() {
		if !strings.HasPrefix(e, "CGO_ENABLED=") && !strings.HasPrefix(e, "GOMEMLIMIT=") {
			env = append(env, e)
		}
	}
	env = append(env, "CGO_ENABLED=1")
	build := exec.Command("go", "test", "-race", "-tags", "verif", "-c", "-o", bin, "./racescope")
	build.Dir = dir
	build.Env = env
	if bout, err := build.CombinedOutput(); err != nil {
		// no race detector available (no cgo toolchain): the clause is then not exercised at all; say so, do not fail
		c.Cov.Notes = append(c.Cov.Notes, "race build failed ("+strings.TrimSpace(string(bout[:min(len(bout), 300)]))+"): data-race clause not exercised in this run")
		c.Cov.Hit("race-detector-unavailable")
		return
	}
	reps := c.N(3, 25)
	for i := 0; i < reps; i++ {
		for _, test := range []string{"TestScopeRacePlain", "TestScopeRaceCached", "TestScopeRaceTestScope"} {
			cmd := exec.Command(bin, "-test.run", "^"+test+"$", "-test.count", "1")
			cmd.Env = append(append([]string{}, env...), "GORACE=halt_on_error=0")
			done := make(chan struct{})
			var out []byte
			go func() { out, _ = cmd.CombinedOutput(); close(done) }()
			select {
			case <-done:
			case <-time.After(180 * time.Second):
				cmd.Process.Kill()
				<-done
				c.Cov.Fail(Failure{Kind: "crash", Clause: "no-deadlock", Signature: "racescope-hang-" + test, Line: "race run " + test, Reply: "the test did not finish within 180 s"})
				return
			}
			so := string(out)
			if strings.Contains(so, "panic:") || strings.Contains(so, "fatal error:") {
				j := strings.Index(so, "panic:")
				if j < 0 {
					j = strings.Index(so, "fatal error:")
				}
				c.Cov.Fail(Failure{Kind: "crash", Clause: "no-panic", Signature: "racescope-dies-" + test, Line: "race run " + test, Reply: so[j:min(len(so), j+200)], Detail: so[j:min(len(so), j+3000)]})
				return
			}
			for k, sample := range raceClassify(so) {
				c.Cov.Fail(Failure{Kind: "violated", Clause: "no-data-race", Signature: k, Line: fmt.Sprintf("race run %s (repetition %d)", test, i), Reply: k, Detail: sample})
			}
			c.Cov.Hit("race." + test)
			c.Cov.Eval(fmt.Sprintf("race %s #%d", test, i), true)
		}
	}
	c.Cov.Traces = c.Cov.Evaluations
}
