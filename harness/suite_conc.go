package main

import (
	"fmt"
	"io"
	"os"
	"runtime"
	"sort"
	"strings"
	"sync"
	"sync/atomic"
	"time"

	tally "github.com/uber-go/tally/v4"
	"github.com/uber-go/tally/v4/m3"
)

// Concurrency scenarios for C07 / C08 / C09 driven by the cooperative scheduler, judged by
// trace-level oracles computed in the harness from the global order of scheduler steps:
//   conservation per (name,tags): everything recorded on a scope before that scope's Close was called
//   (and before the root's Close was called) is delivered exactly once after quiescence.
// The Lean side contributes the model theorems (Model/Registry) and, for the lock-step suites, the
// enabled sets; these scripted / sampled scenarios are the search for concrete failing schedules.

func init() {
	register("c07conc", "C07", "", suiteC07Conc)
	register("c08conc", "C08", "", suiteC08Conc)
}

// world: one root with a recording reporter and bookkeeping for the oracle
type world struct {
	cached   bool
	rec      *recReporter
	recC     *recCached
	root     tally.Scope
	closer   io.Closer
	mu       sync.Mutex
	expected map[string]int64 // name -> sum of increments that must be delivered
	trace    []string
}

// worldSanitize, when set, gives the next worlds a sanitizer (scenarios that race on names the sanitizer changes)
var worldSanitize *tally.SanitizeOptions

// worldSeparator, when not empty, is the Separator option of the worlds created while it is set
var worldSeparator string

func newWorld(cached bool, interval time.Duration, shards uint, closable bool) *world {
	w := &world{cached: cached, expected: map[string]int64{}}
	opts := tally.ScopeOptions{OmitCardinalityMetrics: true, SanitizeOptions: worldSanitize, Separator: worldSeparator}
	if cached {
		w.recC = newRecCached()
		if closable {
			opts.CachedReporter = recCachedCloser{w.recC}
		} else {
			opts.CachedReporter = w.recC
		}
	} else {
		w.rec = newRec()
		if closable {
			opts.Reporter = recReporterCloser{w.rec}
		} else {
			opts.Reporter = w.rec
		}
	}
	w.root, w.closer = tally.VerifNewRootScope(opts, interval, shards)
	return w
}

// setCloseErr makes the (closable) recording reporter's Close return err
func (w *world) setCloseErr(err error) {
	if w.cached {
		w.recC.closeErr = err
	} else {
		w.rec.closeErr = err
	}
}

func (w *world) note(format string, args ...interface{}) {
	w.mu.Lock()
	w.trace = append(w.trace, fmt.Sprintf(format, args...))
	w.mu.Unlock()
}

func (w *world) log() *Log {
	if w.cached {
		return w.recC.log
	}
	return w.rec.log
}

// delivered sums per counter name from the whole reporter log; also the ordered list of event kinds
func (w *world) delivered() (map[string]int64, []string) {
	sums := map[string]int64{}
	var order []string
	for _, e := range w.log().Snapshot() {
		switch e.Kind {
		case "counter":
			name := e.Name
			if w.cached {
				name = w.recC.Meta[e.ID].Name
			}
			sums[name] += e.I
			order = append(order, fmt.Sprintf("%s=%d", name, e.I))
		case "flush", "close":
			order = append(order, e.Kind)
		}
	}
	return sums, order
}

// inc records on a counter and books the expectation (the caller guarantees the scope is live)
func (w *world) inc(c tally.Counter, fullName string, v int64) {
	c.Inc(v)
	w.mu.Lock()
	w.expected[fullName] += v
	w.mu.Unlock()
	w.note("inc %s %d", fullName, v)
}

func (w *world) checkConservation(c *Ctx, prop, sig string) bool {
	got, order := w.delivered()
	ok := true
	names := []string{}
	for n := range w.expected {
		names = append(names, n)
	}
	sort.Strings(names)
	for _, n := range names {
		if got[n] != w.expected[n] {
			ok = false
			c.Cov.Fail(Failure{Kind: "violated", Clause: "recorded-before-close-delivered-exactly-once", Signature: sig,
				Line: strings.Join(w.trace, " | "), Reply: fmt.Sprintf("%s: recorded %d delivered %d; reporter log %v", n, w.expected[n], got[n], order)})
			break
		}
	}
	return ok
}

// runUntil steps thread t until pred(label,arg) holds or it finishes; returns the label reached
func runUntil(s *Sched, t *Thr, pred func(label, arg string) bool) string {
	for i := 0; i < 10000; i++ {
		label, arg := s.Step(t)
		if label == "done" || label == "blocked" || label == "panic" || pred(label, arg) {
			return label
		}
	}
	return "runaway"
}

func never(string, string) bool { return false }

// ---------------------------------------------------------------- C07 scripted schedules

// D4a: a pass parked in the removal path between RUnlock and Lock while the identity is re-acquired
func scenarioRemoveByKey(c *Ctx, cached bool) {
	w := newWorld(cached, 0, 1, false)
	x := w.root.SubScope("x")
	cx := x.Counter("c")
	w.inc(cx, "x.c", 1)
	x.(io.Closer).Close()
	w.note("close x")
	s := NewSched(nil)
	s.ParkOnT = func(th, l string) bool { return th == "P" && l == "registry.remove.pre-lock" }
	P := s.Spawn("P", func() { tally.VerifReportOnce(w.root) })
	U := s.Spawn("U", func() {
		x2 := w.root.SubScope("x")
		w.note("reacquire x")
		w.inc(x2.Counter("c"), "x.c", 7)
	})
	l1 := runUntil(s, P, func(l, _ string) bool { return l == "registry.remove.pre-lock" })
	w.note("P parked at %s", l1)
	l2 := runUntil(s, U, never)
	w.note("U %s", l2)
	l3 := runUntil(s, P, never)
	w.note("P %s", l3)
	s.Finish()
	tally.VerifReportOnce(w.root)
	tally.VerifReportOnce(w.root)
	ok := w.checkConservation(c, "C07", "removal-by-key-deletes-recreated-scope")
	c.Cov.Eval(strings.Join(w.trace, " | "), true)
	c.Cov.Schedules++
	_ = ok
	w.closer.Close()
}

// D4b: a pass parked between reporting a scope and reading its closed flag
func scenarioClosedReadAfterReport(c *Ctx, cached bool) {
	w := newWorld(cached, 0, 1, false)
	x := w.root.SubScope("x")
	cx := x.Counter("c")
	w.inc(cx, "x.c", 1)
	s := NewSched(nil)
	lastVisit := ""
	s.ParkOnT = func(th, l string) bool {
		return th == "P" && (l == "registry.pre-closed-read" || l == "registry.visit")
	}
	P := s.Spawn("P", func() { tally.VerifReportOnce(w.root) })
	l1 := runUntil(s, P, func(l, a string) bool {
		if l == "registry.visit" {
			lastVisit = a
		}
		return l == "registry.pre-closed-read" && strings.HasPrefix(lastVisit, "x")
	})
	w.note("P parked at %s visiting %q", l1, lastVisit)
	// the application records and closes while the pass is in that window
	w.inc(cx, "x.c", 5)
	x.(io.Closer).Close()
	w.note("close x")
	l3 := runUntil(s, P, never)
	w.note("P %s", l3)
	s.Finish()
	tally.VerifReportOnce(w.root)
	tally.VerifReportOnce(w.root)
	w.checkConservation(c, "C07", "closed-flag-read-after-report")
	c.Cov.Eval(strings.Join(w.trace, " | "), true)
	c.Cov.Schedules++
	w.closer.Close()
}

// a pass parked inside the scope's own report (after the counter's swap, before the reporter call) while the
// application records on the scope and closes it: the pass read the flag before the report, so the scope must
// survive this pass and be collected, with the late increments, by the next one
func scenarioCloseDuringOwnReport(c *Ctx, cached bool) {
	w := newWorld(cached, 0, 1, false)
	x := w.root.SubScope("x")
	cx := x.Counter("c")
	w.inc(cx, "x.c", 1)
	s := NewSched(nil)
	s.ParkOnT = func(th, l string) bool { return th == "P" && l == "counter.deliver" }
	P := s.Spawn("P", func() { tally.VerifReportOnce(w.root) })
	l1 := runUntil(s, P, func(l, _ string) bool { return l == "counter.deliver" })
	w.note("P parked at %s (x.c swapped, not yet handed to the reporter)", l1)
	w.inc(cx, "x.c", 7)
	x.(io.Closer).Close()
	w.note("close x")
	l3 := runUntil(s, P, never)
	w.note("P %s", l3)
	s.Finish()
	tally.VerifReportOnce(w.root)
	tally.VerifReportOnce(w.root)
	w.checkConservation(c, "C07", "close-during-the-scope's-own-report")
	c.Cov.Eval(strings.Join(w.trace, " | "), true)
	c.Cov.Schedules++
	w.closer.Close()
}

// sampled C07 cycles: application threads doing {obtain, record, close, obtain again} against pass threads,
// context switches at every registry hook; short watchdog instead of model-provided enabled sets
func scenarioC07Random(c *Ctx, r *Rng) {
	cached := r.Bool()
	shards := uint(1)
	if r.Chance(30) {
		shards = 4
	}
	w := newWorld(cached, 0, shards, false)
	idents := []string{"x", "y"}[:r.Range(1, 2)]
	s := NewSched(func(l string) bool {
		return l == "counter.deliver" || strings.HasPrefix(l, "registry.") && l != "registry.remove.locked" && l != "registry.pass.begin" && l != "registry.purge-check"
	})
	s.Timeout = 30 * time.Millisecond
	var thrs []*Thr
	nApp := r.Range(1, 2)
	for i := 0; i < nApp; i++ {
		rr := r.Fork()
		name := fmt.Sprintf("U%d", i)
		thrs = append(thrs, s.Spawn(name, func() {
			for k := rr.Range(1, 3); k > 0; k-- {
				id := idents[rr.Intn(len(idents))]
				sc := w.root.SubScope(id)
				ctr := sc.Counter("c")
				w.inc(ctr, id+".c", int64(rr.Range(1, 9)))
				if rr.Chance(70) {
					sc.(io.Closer).Close()
					w.note("%s close %s", name, id)
				}
			}
		}))
	}
	for i := r.Range(1, 2); i > 0; i-- {
		thrs = append(thrs, s.Spawn(fmt.Sprintf("P%d", i), func() { tally.VerifReportOnce(w.root) }))
	}
	// NOTE: two application threads closing/recording on the same identity: an increment made through a
	// handle whose scope another thread closed meanwhile need not be delivered. The expectation above is
	// therefore only exact when application threads use disjoint identities; enforce that.
	if nApp > 1 {
		idents = idents[:1]
	}
	steps := 0
	for steps < 400 {
		var live []*Thr
		for _, t := range thrs {
			if !t.Done {
				live = append(live, t)
			}
		}
		if len(live) == 0 {
			break
		}
		t := live[r.Intn(len(live))]
		if t.At == "blocked" {
			s.Poll(t, 5*time.Millisecond)
			steps++
			continue
		}
		label, _ := s.Step(t)
		if label == "panic" {
			c.Cov.Fail(Failure{Kind: "crash", Clause: "panic", Signature: "c07-random-panic", Line: strings.Join(w.trace, " | "), Reply: fmt.Sprint(t.Pan)})
			break
		}
		w.note("%s@%s", t.Name, label)
		steps++
	}
	s.Finish()
	stuck := false
	for _, t := range thrs {
		if !t.Done {
			stuck = true
		}
	}
	if stuck {
		c.Cov.Fail(Failure{Kind: "crash", Clause: "deadlock", Signature: "c07-random-stuck", Line: strings.Join(w.trace, " | ")})
	}
	tally.VerifReportOnce(w.root)
	tally.VerifReportOnce(w.root)
	if nApp == 1 {
		w.checkConservation(c, "C07", "c07-random")
	}
	c.Cov.Eval(strings.Join(w.trace, " | "), true)
	c.Cov.Schedules++
	w.closer.Close()
}

// aliasWorld: a root whose sanitizer maps the tag keys "k 1" and "k+1" to the same key "k_1" -- a scope obtained
// through one spelling is registered under the sanitized key and under that raw spelling
func aliasWorld(cached bool) *world {
	o := m3.DefaultSanitizerOpts
	worldSanitize = &o
	w := newWorld(cached, 0, 1, false)
	worldSanitize = nil
	return w
}

// a scope registered under two keys is visited twice by one pass; between the two visits the application records on
// it and closes it.  The second visit finds it closed: it has to report it before collecting it.
func scenarioCloseBetweenAliasVisits(c *Ctx, cached bool) {
	w := aliasWorld(cached)
	sx := w.root.Tagged(map[string]string{"k 1": "v"})
	cx := sx.Counter("c")
	w.inc(cx, "c", 1)
	s := NewSched(nil)
	visits := 0
	s.ParkOnT = func(th, l string) bool {
		if th == "P" && l == "registry.visit" {
			visits++
			return visits >= 2 // the root's own entry comes first or in between; park at every later entry
		}
		return false
	}
	P := s.Spawn("P", func() { tally.VerifReportOnce(w.root) })
	// step P from visit to visit until the scope has been delivered once (its first visit is over)
	for i := 0; i < 6 && !P.Done; i++ {
		s.Step(P)
		if got, _ := w.delivered(); got["c"] == 1 {
			break
		}
	}
	if P.Done {
		s.Finish()
		c.Cov.Hit("alias-visits.not-reached")
		w.closer.Close()
		return
	}
	w.note("P parked at a later registry entry; the scope was visited once (c=1 delivered)")
	w.inc(cx, "c", 7)
	sx.(io.Closer).Close()
	w.note("c += 7, close")
	l := runUntil(s, P, never)
	w.note("P %s", l)
	s.Finish()
	tally.VerifReportOnce(w.root)
	tally.VerifReportOnce(w.root)
	w.checkConservation(c, "C07", "close-between-the-two-visits-of-an-aliased-scope")
	c.Cov.Eval(strings.Join(w.trace, " | "), true)
	c.Cov.Schedules++
	w.closer.Close()
}

// a closed, not yet collected scope is being replaced by a caller that used another spelling (write-locked branch of
// Subscope: report the closed scope, drop it, register a fresh one); that caller is parked right before the reporter
// call when a second caller asks for the identity and records on what it gets.  Whatever the second caller got must
// stay registered: its increments are delivered.
func scenarioReacquireWhileClosedAliasIsDelivered(c *Ctx, cached bool) {
	w := aliasWorld(cached)
	sx := w.root.Tagged(map[string]string{"k 1": "v"})
	w.inc(sx.Counter("c"), "c", 5)
	sx.(io.Closer).Close()
	w.note("scope {k 1:v}: c=5, closed (not collected)")
	s := NewSched(nil)
	s.ParkOnT = func(th, l string) bool { return th == "U1" && l == "counter.deliver" }
	s.Timeout = 200 * time.Millisecond
	U1 := s.Spawn("U1", func() { w.inc(w.root.Tagged(map[string]string{"k+1": "v"}).Counter("c"), "c", 1) })
	l0 := runUntil(s, U1, func(l, _ string) bool { return l == "counter.deliver" })
	w.note("U1 (other spelling k+1) parked at %s: delivering the closed scope's 5", l0)
	U2 := s.Spawn("U2", func() { w.inc(w.root.Tagged(map[string]string{"k_1": "v"}).Counter("c"), "c", 11) })
	l1 := runUntil(s, U2, never)
	w.note("U2 (same identity, canonical spelling k_1) %s", l1)
	l2 := runUntil(s, U1, never)
	w.note("U1 %s", l2)
	if !U2.Done {
		l3, _ := s.Step(U2)
		w.note("U2 %s", l3)
	}
	s.Finish()
	tally.VerifReportOnce(w.root)
	tally.VerifReportOnce(w.root)
	w.checkConservation(c, "C07", "reacquire-while-closed-alias-is-being-delivered")
	c.Cov.Eval(strings.Join(w.trace, " | "), true)
	c.Cov.Schedules++
	w.closer.Close()
}

func suiteC07Conc(c *Ctx) {
	c.Cov.Rule = "scripted schedules (pass parked in the removal hand-over while the identity is re-acquired; pass parked between reporting a scope and reading its closed flag; with a sanitizer that gives one identity two spellings: a scope closed between its two visits of one pass, and a second caller re-requesting an identity while the closed scope registered under it is being delivered by a first one) and sampled schedules of 1-2 application threads doing {obtain, record, Close, obtain again} on 1-2 identities against 1-2 pass threads with context switches at every registry hook, 1 and 4 shards, plain and cached reporter; oracle: per counter name, everything recorded on a live scope is delivered exactly once after two further passes; every schedule is nontrivial (it contains a context switch inside the registry); distinct by step trace"
	for _, cached := range []bool{false, true} {
		scenarioRemoveByKey(c, cached)
		scenarioClosedReadAfterReport(c, cached)
		scenarioCloseDuringOwnReport(c, cached)
		scenarioCloseBetweenAliasVisits(c, cached)
		scenarioReacquireWhileClosedAliasIsDelivered(c, cached)
	}
	n := c.N(150, 3000)
	for i := 0; i < n; i++ {
		scenarioC07Random(c, c.Rng.Fork())
	}
	c.Cov.Traces = c.Cov.Schedules
}

// ---------------------------------------------------------------- C08

func goroutinesContaining(sub string) int {
	buf := make([]byte, 1<<20)
	n := runtime.Stack(buf, true)
	return strings.Count(string(buf[:n]), sub)
}

// D5: Close called while a periodic pass is part-way through the registry
func scenarioCloseDuringPass(c *Ctx, cached bool) {
	s := NewSched(nil)
	s.ParkOnT = func(th, l string) bool {
		switch th {
		case "loop":
			return l == "loop.start" || l == "loop.tick" || l == "registry.visit" || l == "registry.purge-check" || l == "loop.exit"
		case "C":
			return l == "close.post-done"
		}
		return false
	}
	loop := s.Expect("loop", "loop.start")
	w := newWorld(cached, time.Millisecond, 1, true)
	if !s.WaitAdopted(loop) {
		c.Cov.Fail(Failure{Kind: "crash", Clause: "adopt", Signature: "c08-loop-not-adopted"})
		s.Finish()
		return
	}
	a := w.root.SubScope("a")
	ca := a.Counter("c")
	w.inc(ca, "a.c", 1)
	// let the loop take a tick and visit both registry entries (root and a); park before the end-of-pass purge check / next visit
	visits := 0
	l1 := runUntil(s, loop, func(l, _ string) bool {
		if l == "registry.visit" {
			visits++
		}
		return visits >= 2 && l != "registry.visit" || visits > 2
	})
	w.note("loop parked at %s after %d visits", l1, visits)
	w.inc(ca, "a.c", 3) // recorded before Close is called
	var closeErr error
	C := s.Spawn("C", func() { closeErr = w.closer.Close() })
	l2 := runUntil(s, C, func(l, _ string) bool { return l == "close.post-done" })
	w.note("C parked at %s", l2)
	// the in-flight pass finishes (and, on the pinned code, purges), the loop goroutine exits
	l3 := runUntil(s, loop, func(l, _ string) bool { return l == "loop.exit" })
	w.note("loop %s", l3)
	if l3 == "loop.exit" {
		s.Release(loop) // the goroutine returns from reportLoop: there is no further hook to wait for
	}
	l4 := runUntil(s, C, never)
	w.note("C %s err=%v", l4, closeErr)
	s.Finish()
	checkCloseBarrier(c, w, "close-during-periodic-pass")
	c.Cov.Eval(strings.Join(w.trace, " | "), true)
	c.Cov.Schedules++
}

// D14 (found on Model/ScopeLife): an application thread is inside the re-acquire visit of a CLOSED subscope (it holds
// the shard's read lock, has swapped the subscope's counter and is parked right before the reporter call) when the
// root's Close runs: Close's final pass finds the subscope's cell empty, Flush is called, the purge then waits for
// the read lock; the application thread delivers the value AFTER that final Flush.  "Everything recorded before
// Close is delivered, followed by a Flush, before Close returns": the delivery must be followed by a Flush.
func scenarioReacquireDuringClose(c *Ctx, cached, closable bool) {
	w := newWorld(cached, 0, 1, closable)
	x := w.root.SubScope("x")
	cx := x.Counter("c")
	w.inc(cx, "x.c", 5) // recorded before the root's Close is called
	s := NewSched(nil)
	lastVisit := ""
	s.ParkOnT = func(th, l string) bool {
		switch th {
		case "U":
			return l == "registry.subscope.pre-rlock" || l == "counter.deliver"
		case "C":
			return l == "registry.visit" || l == "registry.pre-closed-read"
		}
		return false
	}
	s.Timeout = 300 * time.Millisecond
	// U enters Subscope("x") before the root is closed and is parked after the root-closed check
	U := s.Spawn("U", func() { w.root.SubScope("x") })
	l0 := runUntil(s, U, func(l, _ string) bool { return l == "registry.subscope.pre-rlock" })
	w.note("U (Subscope x) parked at %s", l0)
	// the root's Close: CAS, close(done), final pass reads x's closed flag (still false) and is parked before reporting x
	C := s.Spawn("C", func() { w.closer.Close() })
	l1 := runUntil(s, C, func(l, a string) bool {
		if l == "registry.visit" {
			lastVisit = a
		}
		return l == "registry.pre-closed-read" && strings.HasPrefix(lastVisit, "x")
	})
	w.note("C (root Close) parked at %s visiting %q (flag read: live)", l1, lastVisit)
	x.(io.Closer).Close()
	w.note("close x")
	// U finds x closed: re-acquire visit, swaps the 5, parked before the reporter call (holds the shard's read lock)
	l2 := runUntil(s, U, func(l, _ string) bool { return l == "counter.deliver" })
	w.note("U parked at %s: x.c swapped, not yet handed to the reporter", l2)
	// C: reports x (nothing left), no removal (it read the flag as live), end of pass, Flush; purge waits for U's read lock
	l3 := runUntil(s, C, never)
	w.note("C %s", l3)
	l4 := runUntil(s, U, never)
	w.note("U %s", l4)
	if !C.Done {
		l5, _ := s.Step(C)
		w.note("C %s", l5)
	}
	s.Finish()
	_, order := w.delivered()
	w.note("reporter log %v", order)
	line := strings.Join(w.trace, " | ")
	lastDel, lastFlush := -1, -1
	for i, e := range order {
		if e == "flush" {
			lastFlush = i
		} else if e != "close" {
			lastDel = i
		}
	}
	if lastDel > lastFlush {
		c.Cov.Fail(Failure{Kind: "violated", Clause: "delivered-then-flushed-before-close-returns", Signature: "reacquire-visit-delivers-after-final-flush", Line: line,
			Reply: fmt.Sprintf("a value recorded before Close reached the reporter after the last Flush: %v", order)})
	}
	w.checkConservation(c, "C08", "reacquire-visit-delivers-after-final-flush")
	if os.Getenv("VERIF_DEBUG") != "" {
		fmt.Fprintln(os.Stderr, line)
	}
	c.Cov.Eval(line, true)
	c.Cov.Schedules++
}

// a closed subscope still holding unreported values is being re-acquired -- the application thread is inside the
// one-off report of the closed scope, parked right before the reporter call -- when the root's Close is called.  The
// value was recorded before Close: Close may not return (nor flush for the last time) before it has been delivered.
func scenarioReacquireReportDuringClose(c *Ctx, cached, closable bool) {
	w := newWorld(cached, 0, 1, closable)
	x := w.root.SubScope("x")
	w.inc(x.Counter("c"), "x.c", 5)
	x.(io.Closer).Close()
	w.note("x.c=5 recorded, x closed (not collected)")
	s := NewSched(nil)
	s.ParkOnT = func(th, l string) bool { return th == "U" && l == "counter.deliver" }
	s.Timeout = 300 * time.Millisecond
	U := s.Spawn("U", func() { w.root.SubScope("x") })
	l0 := runUntil(s, U, func(l, _ string) bool { return l == "counter.deliver" })
	w.note("U (Subscope x) parked at %s: x.c swapped, not yet handed to the reporter", l0)
	C := s.Spawn("C", func() { w.closer.Close() })
	l1 := runUntil(s, C, never)
	w.note("C (root Close) %s", l1)
	if C.Done {
		_, order := w.delivered()
		c.Cov.Fail(Failure{Kind: "violated", Clause: "recorded-before-close-delivered-exactly-once", Signature: "close-returns-during-reacquire-report", Line: strings.Join(w.trace, " | "),
			Reply: fmt.Sprintf("the root's Close returned while the re-acquire report of a closed subscope still held x.c=5 (recorded before Close); reporter log %v", order)})
	}
	l2 := runUntil(s, U, never)
	w.note("U %s", l2)
	if !C.Done {
		l3, _ := s.Step(C)
		w.note("C %s", l3)
	}
	s.Finish()
	_, order := w.delivered()
	w.note("reporter log %v", order)
	line := strings.Join(w.trace, " | ")
	lastDel, lastFlush := -1, -1
	for i, e := range order {
		if e == "flush" {
			lastFlush = i
		} else if e != "close" {
			lastDel = i
		}
	}
	if lastDel > lastFlush {
		c.Cov.Fail(Failure{Kind: "violated", Clause: "delivered-then-flushed-before-close-returns", Signature: "close-returns-during-reacquire-report", Line: line,
			Reply: fmt.Sprintf("a value recorded before Close reached the reporter after the last Flush: %v", order)})
	}
	w.checkConservation(c, "C08", "close-returns-during-reacquire-report")
	c.Cov.Eval(line, true)
	c.Cov.Schedules++
}

// everything recorded before Close delivered, then flush, then exactly one reporter close, nothing after; loop goroutine gone
func checkCloseBarrier(c *Ctx, w *world, sig string) {
	w.checkConservation(c, "C08", sig)
	_, order := w.delivered()
	fail := func(clause, why string) {
		c.Cov.Fail(Failure{Kind: "violated", Clause: clause, Signature: sig, Line: strings.Join(w.trace, " | "), Reply: fmt.Sprintf("%s; reporter log %v", why, order)})
	}
	nclose := 0
	lastFlush, firstClose := -1, -1
	for i, e := range order {
		if e == "close" {
			nclose++
			if firstClose < 0 {
				firstClose = i
			}
		}
		if e == "flush" {
			lastFlush = i
		}
	}
	if nclose != 1 {
		fail("reporter-closed-exactly-once", fmt.Sprintf("%d reporter Close calls", nclose))
	} else if firstClose != len(order)-1 {
		fail("nothing-after-reporter-close", "calls after the reporter was closed")
	} else if lastFlush != firstClose-1 {
		fail("flush-then-close", "the last call before the reporter Close is not Flush")
	}
	// further Close calls: nil and silent; recording on old handles harmless
	before := len(w.log().Snapshot())
	if err := w.closer.Close(); err != nil {
		fail("close-idempotent", "second Close returned "+err.Error())
	}
	if sc := w.root.SubScope("late"); sc != tally.NoopScope {
		fail("scopes-after-close-inert", "SubScope after Close returned a live scope")
	}
	time.Sleep(5 * time.Millisecond)
	if after := len(w.log().Snapshot()); after != before {
		fail("silent-after-close", fmt.Sprintf("%d reporter calls after Close returned", after-before))
	}
	deadline := time.Now().Add(5 * time.Second) // generous: only a goroutine that really stays costs this time
	for goroutinesContaining("(*scope).reportLoop") > 0 && time.Now().Before(deadline) {
		time.Sleep(time.Millisecond)
	}
	if n := goroutinesContaining("(*scope).reportLoop"); n > 0 {
		fail("report-goroutine-ended", fmt.Sprintf("%d report loop goroutine(s) still running after Close returned", n))
	}
}

// free-running: Close racing a fast ticker over many counters (the property's own scenario)
func scenarioCloseStress(c *Ctx, r *Rng) {
	cached := r.Bool()
	w := newWorld(cached, time.Duration(r.Range(20, 200))*time.Microsecond, uint(r.Range(1, 8)), r.Bool() || true)
	n := r.Range(50, 400)
	var wg sync.WaitGroup
	for g := 0; g < 4; g++ {
		wg.Add(1)
		go func(g int) {
			defer wg.Done()
			for i := 0; i < n; i++ {
				sc := w.root.SubScope(fmt.Sprintf("s%d", (g*n+i)%37))
				name := fmt.Sprintf("c%d", i%5)
				full := fmt.Sprintf("s%d.%s", (g*n+i)%37, name)
				w.inc(sc.Counter(name), full, 1)
				if i%17 == 0 {
					time.Sleep(30 * time.Microsecond)
				}
			}
		}(g)
	}
	wg.Wait()
	w.trace = []string{fmt.Sprintf("stress cached=%v n=%d", cached, n)}
	if err := w.closer.Close(); err != nil {
		c.Cov.Fail(Failure{Kind: "violated", Clause: "close-returns-reporter-error", Signature: "c08-stress", Line: "unexpected error " + err.Error()})
	}
	checkCloseBarrier(c, w, "c08-stress")
	c.Cov.Eval(fmt.Sprintf("stress %d %v %d", n, cached, r.U64()), true)
	c.Cov.Schedules++
}

// Close called at once after the root was created, on one P: the report loop goroutine may not have been scheduled
// yet.  "After Close has returned ... the reporting goroutine has ended": the loop's exit hook (it fires inside the
// goroutine, before its completion is signalled) has fired by the time Close returns, for every interval.
func scenarioCloseAtOnce(c *Ctx, cached bool, interval time.Duration) {
	old := runtime.GOMAXPROCS(1)
	defer runtime.GOMAXPROCS(old)
	s := NewSched(nil)
	var starts, exits int32
	s.Observe = func(l, _ string) {
		switch l {
		case "loop.start":
			atomic.AddInt32(&starts, 1)
		case "loop.exit":
			atomic.AddInt32(&exits, 1)
		}
	}
	s.ParkOnT = func(string, string) bool { return false }
	w := newWorld(cached, interval, 1, true)
	w.inc(w.root.Counter("c"), "c", 3)
	w.inc(w.root.SubScope("s").Counter("c"), "s.c", 4)
	err := w.closer.Close()
	ex := atomic.LoadInt32(&exits)
	s.Finish()
	line := fmt.Sprintf("GOMAXPROCS(1); cached=%v; root with interval %v created, two counters incremented, Close called at once", cached, interval)
	w.trace = []string{line}
	if err != nil {
		c.Cov.Fail(Failure{Kind: "violated", Clause: "close-returns-reporter-error", Signature: "c08-close-at-once", Line: line, Reply: err.Error()})
	}
	if ex != 1 {
		c.Cov.Fail(Failure{Kind: "violated", Clause: "report-goroutine-ended", Signature: "c08-close-at-once-loop-not-ended", Line: line,
			Reply: fmt.Sprintf("when Close returned the report loop goroutine had not ended (loop exits observed: %d, loop starts: %d): Close did not wait for it", ex, atomic.LoadInt32(&starts))})
	}
	w.checkConservation(c, "C08", "c08-close-at-once")
	c.Cov.Eval(line, true)
	c.Cov.Schedules++
}

// scenarioManyClosers: n goroutines call the root's Close; the first is held inside the reporter's final Flush (the
// shutdown is in progress) while the others arrive and wait for it; when the Flush is let go EVERY call returns
// ("any number of concurrent Close callers"), the waiting ones with nil.
func scenarioManyClosers(c *Ctx, cached bool, n int) {
	s := NewSched(nil)
	s.ParkOnT = func(string, string) bool { return false }
	w := newWorld(cached, 0, 1, true)
	w.inc(w.root.Counter("c"), "c", 3)
	entered := make(chan struct{})
	release := make(chan struct{})
	var once sync.Once
	w.log().Pre = func(e *Ev) {
		if e.Kind == "flush" {
			once.Do(func() {
				close(entered)
				<-release
			})
		}
	}
	line := fmt.Sprintf("cached=%v; %d goroutines call the root's Close; the first is held inside the reporter's final Flush until the others have arrived, then let go", cached, n)
	w.trace = []string{line}
	type res struct {
		i   int
		err error
	}
	done := make(chan res, n)
	go func() { done <- res{0, w.closer.Close()} }()
	select {
	case <-entered:
	case <-time.After(5 * time.Second):
		close(release)
		s.Finish()
		c.Cov.Fail(Failure{Kind: "crash", Clause: "hang", Signature: "c08-many-closers-no-final-flush", Line: line, Reply: "the first Close never reached the reporter's Flush"})
		return
	}
	for i := 1; i < n; i++ {
		i := i
		go func() { done <- res{i, w.closer.Close()} }()
	}
	time.Sleep(30 * time.Millisecond) // the others reach their wait (arriving later is just as legal)
	close(release)
	returned := 0
	var errs []string
	deadline := time.After(5 * time.Second)
loop:
	for returned < n {
		select {
		case r := <-done:
			returned++
			if r.err != nil {
				errs = append(errs, fmt.Sprintf("caller %d: %v", r.i, r.err))
			}
		case <-deadline:
			break loop
		}
	}
	s.Finish()
	if returned != n {
		c.Cov.Fail(Failure{Kind: "violated", Clause: "every-close-call-returns", Signature: "c08-many-closers-some-never-return", Line: line,
			Reply: fmt.Sprintf("5 s after the shutdown finished only %d of %d Close calls have returned", returned, n)})
	} else if len(errs) > 0 {
		c.Cov.Fail(Failure{Kind: "violated", Clause: "close-idempotent", Signature: "c08-many-closers-error", Line: line, Reply: strings.Join(errs, "; ")})
	}
	c.Cov.Hit(fmt.Sprintf("many-closers.%d", n))
	c.Cov.Eval(line, true)
	c.Cov.Schedules++
}

func suiteC08Conc(c *Ctx) {
	c.Cov.Rule = "scripted schedule (Close called while a periodic pass of the real report loop goroutine is part-way through the registry; Close parked between close(done) and its final pass) and free-running stress (4 recording goroutines, ticker 20-200us, 1-8 shards, plain and cached closable reporters) ; oracle: conservation of everything recorded before Close, last calls are Flush then exactly one reporter Close, nothing afterwards, second Close nil and silent, SubScope after Close inert, no report-loop goroutine left; every case nontrivial; distinct by trace"
	for _, cached := range []bool{false, true} {
		for _, iv := range []time.Duration{time.Hour, 50 * time.Millisecond, 100 * time.Microsecond} {
			for k := 0; k < 5; k++ {
				scenarioCloseAtOnce(c, cached, iv)
			}
		}
		for _, n := range []int{2, 3, 5} {
			scenarioManyClosers(c, cached, n)
		}
		scenarioCloseDuringPass(c, cached)
		scenarioReacquireDuringClose(c, cached, true)
		scenarioReacquireDuringClose(c, cached, false)
		scenarioReacquireReportDuringClose(c, cached, true)
		scenarioReacquireReportDuringClose(c, cached, false)
	}
	n := c.N(40, 600)
	for i := 0; i < n; i++ {
		scenarioCloseStress(c, c.Rng.Fork())
	}
	c.Cov.Traces = c.Cov.Schedules
}
