package main

import (
	"fmt"
	"hash/fnv"
	"math"
	"strconv"
	"strings"
	"sync/atomic"
	"time"

	tally "github.com/uber-go/tally/v4"
	"github.com/uber-go/tally/v4/multi"
)

func init() { register("c19", "C19", "c19", suiteC19) }

// ---------------------------------------------------------------- recording children
//
// Every child draws the sequence number of each call it receives from ONE atomic counter shared by
// all children of a session, and numbers the handles it hands out itself (metric handles and bucket
// handles separately, by allocation order). A received call is stored already in wire form
// ("kind/arg/arg…", see lean/Tally/Drv/C19.lean).

type c19Ev struct {
	seq int64
	tok string
}

type c19Child struct {
	sh         *int64
	caps       capsT
	log        []c19Ev
	nextMetric int
	nextBucket int
	capsCalls  int
}

func (c *c19Child) rec(fields ...string) {
	s := atomic.AddInt64(c.sh, 1) - 1
	c.log = append(c.log, c19Ev{s, strings.Join(fields, "/")})
}

func c19Tags(m map[string]string) string {
	if m == nil {
		return "~"
	}
	return mapHex(m) // "-" for the empty non-nil map
}

func c19Buckets(b tally.Buckets) string {
	switch x := b.(type) {
	case nil:
		return "n"
	case tally.ValueBuckets:
		return "v" + f64List([]float64(x))
	case tally.DurationBuckets:
		ds := make([]int64, len(x))
		for i, d := range x {
			ds[i] = int64(d)
		}
		return "d" + i64List(ds)
	default:
		return "v" + f64List(b.AsValues())
	}
}

func i64s(v int64) string { return strconv.FormatInt(v, 10) }

func (c *c19Child) ReportCounter(name string, tags map[string]string, v int64) {
	c.rec("counter", hxs(name), c19Tags(tags), i64s(v))
}
func (c *c19Child) ReportGauge(name string, tags map[string]string, v float64) {
	c.rec("gauge", hxs(name), c19Tags(tags), f64hex(v))
}
func (c *c19Child) ReportTimer(name string, tags map[string]string, d time.Duration) {
	c.rec("timer", hxs(name), c19Tags(tags), i64s(int64(d)))
}
func (c *c19Child) ReportHistogramValueSamples(name string, tags map[string]string, b tally.Buckets, lo, hi float64, n int64) {
	c.rec("hval", hxs(name), c19Tags(tags), c19Buckets(b), f64hex(lo), f64hex(hi), i64s(n))
}
func (c *c19Child) ReportHistogramDurationSamples(name string, tags map[string]string, b tally.Buckets, lo, hi time.Duration, n int64) {
	c.rec("hdur", hxs(name), c19Tags(tags), c19Buckets(b), i64s(int64(lo)), i64s(int64(hi)), i64s(n))
}
func (c *c19Child) Capabilities() tally.Capabilities { c.capsCalls++; return c.caps }
func (c *c19Child) Flush()                           { c.rec("flush") }

func (c *c19Child) alloc(kind, name string, tags map[string]string, extra ...string) int {
	c.rec(append([]string{kind, hxs(name), c19Tags(tags)}, extra...)...)
	id := c.nextMetric
	c.nextMetric++
	return id
}
func (c *c19Child) AllocateCounter(name string, tags map[string]string) tally.CachedCount {
	return c19Metric{c, c.alloc("alloc-counter", name, tags)}
}
func (c *c19Child) AllocateGauge(name string, tags map[string]string) tally.CachedGauge {
	return c19Metric{c, c.alloc("alloc-gauge", name, tags)}
}
func (c *c19Child) AllocateTimer(name string, tags map[string]string) tally.CachedTimer {
	return c19Metric{c, c.alloc("alloc-timer", name, tags)}
}
func (c *c19Child) AllocateHistogram(name string, tags map[string]string, b tally.Buckets) tally.CachedHistogram {
	return c19Hist{c, c.alloc("alloc-hist", name, tags, c19Buckets(b))}
}

type c19Metric struct {
	c  *c19Child
	id int
}

func (h c19Metric) ReportCount(v int64)   { h.c.rec("count", strconv.Itoa(h.id), i64s(v)) }
func (h c19Metric) ReportGauge(v float64) { h.c.rec("gaugeh", strconv.Itoa(h.id), f64hex(v)) }
func (h c19Metric) ReportTimer(d time.Duration) {
	h.c.rec("timerh", strconv.Itoa(h.id), i64s(int64(d)))
}

type c19Hist struct {
	c  *c19Child
	id int
}

func (h c19Hist) bucket() tally.CachedHistogramBucket {
	id := h.c.nextBucket
	h.c.nextBucket++
	return c19Bucket{h.c, id}
}
func (h c19Hist) ValueBucket(lo, hi float64) tally.CachedHistogramBucket {
	h.c.rec("vbucket", strconv.Itoa(h.id), f64hex(lo), f64hex(hi))
	return h.bucket()
}
func (h c19Hist) DurationBucket(lo, hi time.Duration) tally.CachedHistogramBucket {
	h.c.rec("dbucket", strconv.Itoa(h.id), i64s(int64(lo)), i64s(int64(hi)))
	return h.bucket()
}

type c19Bucket struct {
	c  *c19Child
	id int
}

func (b c19Bucket) ReportSamples(v int64) { b.c.rec("samples", strconv.Itoa(b.id), i64s(v)) }

// ---------------------------------------------------------------- argument generators

var c19Names = []string{"", "a", "foo.bar", "requests_total", "name with space", "näme-世界", "\xff\xfe\x80", "a+b,c=d", "x/y:z;w", "\x00", "~", "-"}

func c19Name(r *Rng) string {
	switch k := r.Intn(60); {
	case k < 5:
		return ""
	case k < 10:
		b := make([]byte, r.Range(1, 12))
		for i := range b {
			b[i] = byte(r.Intn(256))
		}
		return string(b)
	case k == 10:
		return strings.Repeat("long-name.", r.Range(10, 40))
	default:
		return c19Names[r.Intn(len(c19Names))]
	}
}

func c19GenTags(r *Rng, c *Ctx) map[string]string {
	switch r.Intn(7) {
	case 0:
		c.Cov.Hit("args.tags-nil")
		return nil
	case 1:
		c.Cov.Hit("args.tags-empty")
		return map[string]string{}
	}
	n := r.Range(1, 4)
	m := make(map[string]string, n)
	for i := 0; i < n; i++ {
		k, v := c19Name(r), c19Name(r)
		if k == "" || v == "" {
			c.Cov.Hit("args.tags-empty-key-or-value")
		}
		m[k] = v
	}
	c.Cov.Hit("args.tags-" + strconv.Itoa(len(m)))
	return m
}

var c19Ints = []int64{0, 1, -1, 2, 42, -42, math.MaxInt64, math.MinInt64, math.MaxInt64 - 1, math.MinInt64 + 1, 1 << 53, -(1 << 53), 1e9, 60e9, -1e9}

func c19I64(r *Rng, c *Ctx) int64 {
	if r.Intn(4) == 0 {
		return int64(r.U64())
	}
	v := c19Ints[r.Intn(len(c19Ints))]
	if v == math.MaxInt64 || v == math.MinInt64 {
		c.Cov.Hit("args.int64-extreme")
	}
	return v
}

var c19Floats = []uint64{0, 0x8000000000000000, 0x3ff0000000000000, 0xbff0000000000000, 0x7ff8000000000000, 0x7ff8000000000001, 0xfff8000000000000,
	0x7ff0000000000001, 0x7ff0000000000000, 0xfff0000000000000, 0x7fefffffffffffff, 0xffefffffffffffff, 0x0000000000000001, 0x8000000000000001, 0x3fb999999999999a, 0x4059000000000000}

func c19F64(r *Rng, c *Ctx) float64 {
	var f float64
	if r.Intn(4) == 0 {
		f = math.Float64frombits(r.U64())
	} else {
		f = math.Float64frombits(c19Floats[r.Intn(len(c19Floats))])
	}
	switch {
	case math.IsNaN(f):
		c.Cov.Hit("args.float-nan")
	case math.IsInf(f, 0):
		c.Cov.Hit("args.float-inf")
	case f == 0 && math.Signbit(f):
		c.Cov.Hit("args.float-negzero")
	}
	return f
}

func c19GenBuckets(r *Rng, c *Ctx) tally.Buckets {
	switch r.Intn(8) {
	case 0:
		c.Cov.Hit("args.buckets-nil")
		return nil
	case 1, 2, 3:
		n := r.Intn(6)
		b := make(tally.ValueBuckets, n)
		for i := range b {
			b[i] = c19F64(r, c)
		}
		c.Cov.Hit("args.buckets-value")
		return b
	case 4:
		c.Cov.Hit("args.buckets-default")
		return tally.DefaultBuckets
	default:
		n := r.Intn(6)
		b := make(tally.DurationBuckets, n)
		for i := range b {
			b[i] = time.Duration(c19I64(r, c))
		}
		c.Cov.Hit("args.buckets-duration")
		return b
	}
}

// ---------------------------------------------------------------- one session = one multi reporter + one history

type c19Step struct {
	req    string   // "call …" or "caps"
	obs    []string // observed tokens after "=>"
	kind   string   // call kind, for signatures
	events int      // number of child events among obs (obs[0] is ret/panic for calls)
}

func (s c19Step) line() string {
	if len(s.obs) == 0 {
		return s.req
	}
	return s.req + " => " + strings.Join(s.obs, " ")
}

type c19Session struct {
	flavour  string
	caps     []capsT
	kids     []*c19Child
	taken    []int // per child: log entries already reported
	plain    tally.StatsReporter
	cached   tally.CachedStatsReporter
	metrics  []interface{} // handles handed out by the multi reporter, by ordinal
	mkinds   []string
	buckets  []tally.CachedHistogramBucket
	steps    []c19Step
	begin    string
	forwards int
}

func c19CapsTok(c capsT) string {
	b := func(x bool) string {
		if x {
			return "1"
		}
		return "0"
	}
	return b(c.r) + b(c.t)
}

func c19NewKids(caps []capsT) ([]*c19Child, *int64) {
	sh := new(int64)
	kids := make([]*c19Child, len(caps))
	for i, cp := range caps {
		kids[i] = &c19Child{sh: sh, caps: cp}
	}
	return kids, sh
}

// c19ZeroChild is a child that is a VALUE of a type without state (like tally.NullStatsReporter, a `struct{}`): the
// interface holding it holds the type's zero value, which is a perfectly good reporter.  It forwards every call to the
// recording child of the current session it stands for.
type c19ZeroChild struct{}

var c19ZeroTarget *c19Child

func (c19ZeroChild) ReportCounter(name string, tags map[string]string, v int64) {
	c19ZeroTarget.ReportCounter(name, tags, v)
}
func (c19ZeroChild) ReportGauge(name string, tags map[string]string, v float64) {
	c19ZeroTarget.ReportGauge(name, tags, v)
}
func (c19ZeroChild) ReportTimer(name string, tags map[string]string, d time.Duration) {
	c19ZeroTarget.ReportTimer(name, tags, d)
}
func (c19ZeroChild) ReportHistogramValueSamples(name string, tags map[string]string, b tally.Buckets, lo, hi float64, n int64) {
	c19ZeroTarget.ReportHistogramValueSamples(name, tags, b, lo, hi, n)
}
func (c19ZeroChild) ReportHistogramDurationSamples(name string, tags map[string]string, b tally.Buckets, lo, hi time.Duration, n int64) {
	c19ZeroTarget.ReportHistogramDurationSamples(name, tags, b, lo, hi, n)
}
func (c19ZeroChild) Capabilities() tally.Capabilities { return c19ZeroTarget.Capabilities() }
func (c19ZeroChild) Flush()                           { c19ZeroTarget.Flush() }
func (c19ZeroChild) AllocateCounter(name string, tags map[string]string) tally.CachedCount {
	return c19ZeroTarget.AllocateCounter(name, tags)
}
func (c19ZeroChild) AllocateGauge(name string, tags map[string]string) tally.CachedGauge {
	return c19ZeroTarget.AllocateGauge(name, tags)
}
func (c19ZeroChild) AllocateTimer(name string, tags map[string]string) tally.CachedTimer {
	return c19ZeroTarget.AllocateTimer(name, tags)
}
func (c19ZeroChild) AllocateHistogram(name string, tags map[string]string, b tally.Buckets) tally.CachedHistogram {
	return c19ZeroTarget.AllocateHistogram(name, tags, b)
}

// c19ZeroAt, when >= 0, makes the next session hand child number c19ZeroAt to the constructor as a c19ZeroChild{} value
var c19ZeroAt = -1

// c19Shape, when set, makes the next session NEST its children: consecutive groups of the given sizes; a group of two
// or more children becomes a multi reporter of its own (same flavour) that is handed to the outer one as ONE child.
// A multi reporter is a reporter, so this is an ordinary configuration; every call reaches the same recording children
// in the same order as in the flat list, and the conjunction of capabilities is the same: the model stays flat.
var c19Shape []int

func c19NewSession(flavour string, caps []capsT) *c19Session {
	s := &c19Session{flavour: flavour, caps: caps}
	s.kids, _ = c19NewKids(caps)
	s.taken = make([]int, len(caps))
	shape := c19Shape
	c19Shape = nil
	sum := 0
	for _, g := range shape {
		sum += g
	}
	if sum != len(s.kids) {
		shape = nil
	}
	if shape == nil {
		for range s.kids {
			shape = append(shape, 1)
		}
	}
	zeroAt := c19ZeroAt
	c19ZeroAt = -1
	if zeroAt >= 0 && zeroAt < len(s.kids) {
		c19ZeroTarget = s.kids[zeroAt]
	} else {
		zeroAt = -1
	}
	plainOf := func(i int) tally.StatsReporter {
		if i == zeroAt {
			return c19ZeroChild{}
		}
		return s.kids[i]
	}
	cachedOf := func(i int) tally.CachedStatsReporter {
		if i == zeroAt {
			return c19ZeroChild{}
		}
		return s.kids[i]
	}
	if flavour == "plain" {
		var rs []tally.StatsReporter
		at := 0
		for _, g := range shape {
			if g == 1 {
				rs = append(rs, plainOf(at))
			} else {
				var inner []tally.StatsReporter
				for i := at; i < at+g; i++ {
					inner = append(inner, plainOf(i))
				}
				rs = append(rs, multi.NewMultiReporter(inner...))
			}
			at += g
		}
		s.plain = multi.NewMultiReporter(rs...)
	} else {
		var rs []tally.CachedStatsReporter
		at := 0
		for _, g := range shape {
			if g == 1 {
				rs = append(rs, cachedOf(at))
			} else {
				var inner []tally.CachedStatsReporter
				for i := at; i < at+g; i++ {
					inner = append(inner, cachedOf(i))
				}
				rs = append(rs, multi.NewMultiCachedReporter(inner...))
			}
			at += g
		}
		s.cached = multi.NewMultiCachedReporter(rs...)
	}
	toks := make([]string, len(caps))
	for i, cp := range caps {
		toks[i] = c19CapsTok(cp)
	}
	s.begin = fmt.Sprintf("begin %s %d %s", flavour, len(caps), joinList(toks))
	return s
}

// collect the events the children logged since the last collection, grouped by child in child order
func (s *c19Session) collect() []string {
	var out []string
	for i, k := range s.kids {
		for _, e := range k.log[s.taken[i]:] {
			out = append(out, fmt.Sprintf("%d/%d/%s", i, e.seq, e.tok))
		}
		s.taken[i] = len(k.log)
	}
	return out
}

// do runs one call on the multi reporter (panics caught) and records the step
func (s *c19Session) do(fields []string, f func()) {
	panicked, _ := catch(f)
	ret := "ret"
	if panicked {
		ret = "panic"
	}
	evs := s.collect()
	s.steps = append(s.steps, c19Step{req: "call " + strings.Join(fields, " "), obs: append([]string{ret}, evs...), kind: fields[0], events: len(evs)})
	s.forwards++
}

func (s *c19Session) queryCaps() {
	var got tally.Capabilities
	panicked, _ := catch(func() {
		if s.plain != nil {
			got = s.plain.Capabilities()
		} else {
			got = s.cached.Capabilities()
		}
	})
	tok := "panic"
	if !panicked && got != nil {
		tok = c19CapsTok(capsT{got.Reporting(), got.Tagging()})
	}
	s.steps = append(s.steps, c19Step{req: "caps", obs: []string{tok}, kind: "caps"})
}

// changeCaps: the children change what they are capable of (a reporter that reports only while its connection is
// up, a switchable wrapper); the multi reporter must answer with the conjunction of the CURRENT answers
func (s *c19Session) changeCaps(r *Rng) {
	if len(s.kids) == 0 {
		return
	}
	caps := append([]capsT(nil), s.caps...)
	for n := r.Range(1, len(caps)); n > 0; n-- {
		i := r.Intn(len(caps))
		caps[i] = capsT{r.Bool(), r.Bool()}
	}
	toks := make([]string, len(caps))
	for i, cp := range caps {
		s.kids[i].caps = cp
		toks[i] = c19CapsTok(cp)
	}
	s.caps = caps
	s.steps = append(s.steps, c19Step{req: "setcaps " + joinList(toks), kind: "setcaps"})
}

func (s *c19Session) flush() {
	s.do([]string{"flush"}, func() {
		if s.plain != nil {
			s.plain.Flush()
		} else {
			s.cached.Flush()
		}
	})
}

func (s *c19Session) pickMetric(r *Rng, kind string) int {
	var idx []int
	for i, k := range s.mkinds {
		if k == kind {
			idx = append(idx, i)
		}
	}
	if len(idx) == 0 {
		return -1
	}
	return idx[r.Intn(len(idx))]
}

func (s *c19Session) randomCall(r *Rng, c *Ctx) {
	if s.plain != nil {
		m := s.plain
		switch k := r.Intn(100); {
		case k < 20:
			n, t, v := c19Name(r), c19GenTags(r, c), c19I64(r, c)
			s.do([]string{"counter", hxs(n), c19Tags(t), i64s(v)}, func() { m.ReportCounter(n, t, v) })
		case k < 40:
			n, t, v := c19Name(r), c19GenTags(r, c), c19F64(r, c)
			s.do([]string{"gauge", hxs(n), c19Tags(t), f64hex(v)}, func() { m.ReportGauge(n, t, v) })
		case k < 55:
			n, t, v := c19Name(r), c19GenTags(r, c), c19I64(r, c)
			s.do([]string{"timer", hxs(n), c19Tags(t), i64s(v)}, func() { m.ReportTimer(n, t, time.Duration(v)) })
		case k < 70:
			n, t, b, lo, hi, k := c19Name(r), c19GenTags(r, c), c19GenBuckets(r, c), c19F64(r, c), c19F64(r, c), c19I64(r, c)
			s.do([]string{"hval", hxs(n), c19Tags(t), c19Buckets(b), f64hex(lo), f64hex(hi), i64s(k)}, func() { m.ReportHistogramValueSamples(n, t, b, lo, hi, k) })
		case k < 85:
			n, t, b, lo, hi, k := c19Name(r), c19GenTags(r, c), c19GenBuckets(r, c), c19I64(r, c), c19I64(r, c), c19I64(r, c)
			s.do([]string{"hdur", hxs(n), c19Tags(t), c19Buckets(b), i64s(lo), i64s(hi), i64s(k)}, func() {
				m.ReportHistogramDurationSamples(n, t, b, time.Duration(lo), time.Duration(hi), k)
			})
		case k < 95:
			s.flush()
		default:
			s.queryCaps()
		}
		return
	}
	m := s.cached
	k := r.Intn(100)
	if len(s.metrics) == 0 && k >= 28 && k < 90 {
		k = r.Intn(28)
	}
	switch {
	case k < 28: // allocations
		n, t := c19Name(r), c19GenTags(r, c)
		switch k % 4 {
		case 0:
			s.do([]string{"alloc-counter", hxs(n), c19Tags(t)}, func() { s.metrics = append(s.metrics, m.AllocateCounter(n, t)) })
			s.mkinds = append(s.mkinds, "counter")
		case 1:
			s.do([]string{"alloc-gauge", hxs(n), c19Tags(t)}, func() { s.metrics = append(s.metrics, m.AllocateGauge(n, t)) })
			s.mkinds = append(s.mkinds, "gauge")
		case 2:
			s.do([]string{"alloc-timer", hxs(n), c19Tags(t)}, func() { s.metrics = append(s.metrics, m.AllocateTimer(n, t)) })
			s.mkinds = append(s.mkinds, "timer")
		default:
			b := c19GenBuckets(r, c)
			s.do([]string{"alloc-hist", hxs(n), c19Tags(t), c19Buckets(b)}, func() { s.metrics = append(s.metrics, m.AllocateHistogram(n, t, b)) })
			s.mkinds = append(s.mkinds, "histogram")
		}
		if len(s.metrics) != len(s.mkinds) { // the allocation panicked: keep ordinals aligned with the model (which has no panics)
			s.metrics = append(s.metrics, nil)
		}
	case k < 60: // report through a metric handle
		kind := []string{"counter", "gauge", "timer"}[r.Intn(3)]
		h := s.pickMetric(r, kind)
		if h < 0 {
			s.randomCall(r, c)
			return
		}
		switch kind {
		case "counter":
			v := c19I64(r, c)
			s.do([]string{"count", strconv.Itoa(h), i64s(v)}, func() { s.metrics[h].(tally.CachedCount).ReportCount(v) })
		case "gauge":
			v := c19F64(r, c)
			s.do([]string{"gaugeh", strconv.Itoa(h), f64hex(v)}, func() { s.metrics[h].(tally.CachedGauge).ReportGauge(v) })
		default:
			v := c19I64(r, c)
			s.do([]string{"timerh", strconv.Itoa(h), i64s(v)}, func() { s.metrics[h].(tally.CachedTimer).ReportTimer(time.Duration(v)) })
		}
	case k < 75: // obtain a histogram bucket handle
		h := s.pickMetric(r, "histogram")
		if h < 0 {
			s.randomCall(r, c)
			return
		}
		before := len(s.buckets)
		if r.Bool() {
			lo, hi := c19F64(r, c), c19F64(r, c)
			s.do([]string{"vbucket", strconv.Itoa(h), f64hex(lo), f64hex(hi)}, func() {
				s.buckets = append(s.buckets, s.metrics[h].(tally.CachedHistogram).ValueBucket(lo, hi))
			})
		} else {
			lo, hi := c19I64(r, c), c19I64(r, c)
			s.do([]string{"dbucket", strconv.Itoa(h), i64s(lo), i64s(hi)}, func() {
				s.buckets = append(s.buckets, s.metrics[h].(tally.CachedHistogram).DurationBucket(time.Duration(lo), time.Duration(hi)))
			})
		}
		if len(s.buckets) == before {
			s.buckets = append(s.buckets, nil)
		}
	case k < 90: // report samples through a bucket handle
		if len(s.buckets) == 0 {
			s.randomCall(r, c)
			return
		}
		b, v := r.Intn(len(s.buckets)), c19I64(r, c)
		s.do([]string{"samples", strconv.Itoa(b), i64s(v)}, func() { s.buckets[b].ReportSamples(v) })
	case k < 97:
		s.flush()
	default:
		s.queryCaps()
	}
}

func (s *c19Session) sig(kind string) string {
	pre := ""
	if len(s.caps) == 0 {
		pre = "empty-"
	}
	return pre + s.flavour + "-" + kind
}

func (s *c19Session) key() string {
	h := fnv.New64a()
	h.Write([]byte(s.begin))
	for _, st := range s.steps {
		h.Write([]byte(st.req))
		h.Write([]byte{'\n'})
	}
	return fmt.Sprintf("%s steps=%d hist=%016x", s.begin, len(s.steps), h.Sum64())
}

// submit sends the session to the driver; stops at the first line that is not ok (every later line
// of a prefix-judged session would fail too). Returns whether all lines were ok.
func (s *c19Session) submit(c *Ctx, sigOverride string) bool {
	if r := c.Drv.Ask(s.begin); r != "ok" {
		c.Cov.Fail(Failure{Kind: "bad-op", Clause: "protocol", Signature: s.sig("begin"), Line: s.begin, Reply: r})
		return false
	}
	for _, st := range s.steps {
		sig := s.sig(st.kind)
		if sigOverride != "" {
			sig = sigOverride
		}
		if !c.Cov.Check(c.Drv, st.line(), sig) {
			c.Drv.Ask("end")
			return false
		}
		c.Cov.Hit("call." + st.kind)
	}
	sig := s.sig("end")
	if sigOverride != "" {
		sig = sigOverride
	}
	return c.Cov.Check(c.Drv, "end", sig)
}

func (s *c19Session) count(c *Ctx) {
	n := len(s.caps)
	nontrivial := (n >= 2 && s.forwards >= 2) || (n == 0 && s.forwards >= 1)
	c.Cov.Eval(s.key(), nontrivial)
	c.Cov.Hit(fmt.Sprintf("children.%d", n))
	c.Cov.Hit("flavour." + s.flavour)
	c.Cov.HitN("calls.forwarded", s.forwards)
	c.Cov.Traces++
	calls := 0
	for _, k := range s.kids {
		calls += k.capsCalls
	}
	c.Cov.HitN("child.Capabilities-calls", calls)
}

func c19RunSession(c *Ctx, r *Rng, flavour string, caps []capsT, length int) *c19Session {
	s := c19NewSession(flavour, caps)
	s.queryCaps()
	for i := 0; i < length; i++ {
		s.randomCall(r, c)
		if r.Chance(6) {
			s.changeCaps(r)
			s.queryCaps()
		}
	}
	s.flush()
	if r.Chance(40) {
		s.changeCaps(r)
	}
	s.queryCaps()
	return s
}

// all capability vectors for n children
func c19AllCaps(n int) [][]capsT {
	total := 1 << (2 * uint(n))
	out := make([][]capsT, 0, total)
	for m := 0; m < total; m++ {
		v := make([]capsT, n)
		for i := 0; i < n; i++ {
			v[i] = capsT{r: m>>(2*uint(i))&1 == 1, t: m>>(2*uint(i)+1)&1 == 1}
		}
		out = append(out, v)
	}
	return out
}

// ---------------------------------------------------------------- negative controls (the oracle must notice)

// tampered copies of a real session's observation; each must draw `violated` or `differ` from the driver
func c19Tamper(s *c19Session, r *Rng) (string, []c19Step) {
	steps := make([]c19Step, len(s.steps))
	for i, st := range s.steps {
		st.obs = append([]string(nil), st.obs...)
		steps[i] = st
	}
	var withEv []int
	for i, st := range steps {
		if st.events >= 2 {
			withEv = append(withEv, i)
		}
	}
	if len(withEv) == 0 {
		return "", nil
	}
	i := withEv[r.Intn(len(withEv))]
	st := &steps[i]
	switch r.Intn(5) {
	case 0: // the last child did not get the call
		st.obs = st.obs[:len(st.obs)-1]
		return "drop-last-child", steps
	case 1: // the first child got it twice
		st.obs = append(st.obs[:2:2], st.obs[1:]...)
		return "first-child-twice", steps
	case 2: // children called in reverse order: swap the sequence numbers of the first two children
		a, b := strings.SplitN(st.obs[1], "/", 3), strings.SplitN(st.obs[2], "/", 3)
		a[1], b[1] = b[1], a[1]
		st.obs[1], st.obs[2] = strings.Join(a, "/"), strings.Join(b, "/")
		return "reversed-order", steps
	case 3: // one child got a different argument: perturb the last field of the last event
		e := st.obs[len(st.obs)-1]
		if strings.HasSuffix(e, "/flush") {
			st.obs[len(st.obs)-1] = strings.TrimSuffix(e, "flush") + "count/0/1"
		} else if strings.HasSuffix(e, "0") {
			st.obs[len(st.obs)-1] = e[:len(e)-1] + "1"
		} else {
			st.obs[len(st.obs)-1] = e[:len(e)-1] + "0"
		}
		return "changed-argument", steps
	default: // wrong capabilities answer
		for j := range steps {
			if steps[j].kind == "caps" {
				t := steps[j].obs[0]
				if t[0] == '1' {
					t = "0" + t[1:]
				} else {
					t = "1" + t[1:]
				}
				steps[j].obs[0] = t
				return "wrong-capabilities", steps
			}
		}
		return "", nil
	}
}

func c19NegativeControl(c *Ctx, s *c19Session, r *Rng) {
	name, steps := c19Tamper(s, r)
	if name == "" {
		return
	}
	noticed, why := false, "accepted"
	if rep := c.Drv.Ask(s.begin); rep != "ok" {
		fatalf("c19 negative control: begin: %s", rep)
	}
	short := func(rep string) string {
		f := strings.Fields(rep)
		if len(f) > 2 {
			f = f[:2]
		}
		if len(f) == 2 && f[0] == "differ" {
			f = f[:1]
		}
		return strings.Join(f, "-")
	}
	for _, st := range steps {
		rep := c.Drv.Ask(st.line())
		if rep != "ok" { // violated / differ; a perturbed token that no longer parses (bad-op) is not accepted either
			noticed, why = true, short(rep)
			break
		}
	}
	rep := c.Drv.Ask("end")
	if !noticed && rep != "ok" {
		noticed, why = true, short(rep)
	}
	c.Cov.Hit("negative-control." + name + "." + why)
	if !noticed {
		c.Cov.Fail(Failure{Kind: "bad-op", Clause: "oracle-insensitive", Signature: "negative-control-" + name, Line: s.begin, Reply: "tampered observation accepted"})
	}
}

var c19Malformed = []string{
	"call counter zz ~ 1 => ret",                            // bad hex
	"call counter 61 ~ 9223372036854775808 => ret",          // not an int64
	"call gauge 61 ~ 1.5 => ret",                            // float not as bit pattern
	"call count 99 1 => ret",                                // handle never allocated
	"call alloc-counter 61 ~ => ret 7/0/alloc-counter/61/~", // event of a child that does not exist
	"call flush => maybe",                                   // neither ret nor panic
	"call flush",                                            // no observation
	"call hval 61 ~ x 0000000000000000 0000000000000000 1 => ret",
	"caps => 2x",
	"frobnicate => ret",
}

func c19MalformedStream(c *Ctx) {
	if rep := c.Drv.Ask("call flush => ret"); !strings.HasPrefix(rep, "bad-op") {
		c.Cov.Fail(Failure{Kind: "bad-op", Clause: "oracle-defaults-malformed", Signature: "malformed-no-session", Line: "call flush => ret", Reply: rep})
	}
	for _, fl := range []string{"plain", "cached"} {
		if rep := c.Drv.Ask("begin " + fl + " 2 11;11"); rep != "ok" {
			fatalf("c19 malformed stream: begin: %s", rep)
		}
		for _, l := range c19Malformed {
			rep := c.Drv.Ask(l)
			c.Cov.Hit("malformed.lines")
			if !strings.HasPrefix(rep, "bad-op") {
				c.Cov.Fail(Failure{Kind: "bad-op", Clause: "oracle-defaults-malformed", Signature: "malformed-line", Line: l, Reply: rep})
			}
		}
		// a call of the other flavour cannot be written against the Go API: must be refused, not judged
		other := "call alloc-counter 61 ~ => ret"
		if fl == "cached" {
			other = "call counter 61 ~ 1 => ret"
		}
		if rep := c.Drv.Ask(other); !strings.HasPrefix(rep, "bad-op") {
			c.Cov.Fail(Failure{Kind: "bad-op", Clause: "oracle-defaults-malformed", Signature: "malformed-flavour", Line: other, Reply: rep})
		}
		c.Drv.Ask("end")
	}
	for _, l := range []string{"begin plain 2 11", "begin plain x -", "begin both 0 -", "begin cached 1 12"} {
		if rep := c.Drv.Ask(l); !strings.HasPrefix(rep, "bad-op") {
			c.Cov.Fail(Failure{Kind: "bad-op", Clause: "oracle-defaults-malformed", Signature: "malformed-begin", Line: l, Reply: rep})
		}
	}
}

// ---------------------------------------------------------------- adversarial: the caller reuses the slice it spread into the constructor

// The children "given" to the constructor are the ones in the slice at the time of the call. The
// caller then overwrites its own slice with other reporters. The observation is taken on the
// children that were given.
func c19AliasProbe(c *Ctx, r *Rng, flavour string, n int) {
	caps := make([]capsT, n)
	for i := range caps {
		caps[i] = capsT{true, true}
	}
	s := &c19Session{flavour: flavour, caps: caps}
	var sh *int64
	s.kids, sh = c19NewKids(caps)
	s.taken = make([]int, n)
	spare := make([]*c19Child, n)
	for i := range spare {
		spare[i] = &c19Child{sh: sh, caps: capsT{false, false}}
	}
	if flavour == "plain" {
		args := make([]tally.StatsReporter, n)
		for i, k := range s.kids {
			args[i] = k
		}
		s.plain = multi.NewMultiReporter(args...)
		for i := range args {
			args[i] = spare[i]
		}
	} else {
		args := make([]tally.CachedStatsReporter, n)
		for i, k := range s.kids {
			args[i] = k
		}
		s.cached = multi.NewMultiCachedReporter(args...)
		for i := range args {
			args[i] = spare[i]
		}
	}
	toks := make([]string, n)
	for i := range toks {
		toks[i] = "11"
	}
	s.begin = fmt.Sprintf("begin %s %d %s", flavour, n, joinList(toks))
	s.queryCaps()
	s.flush()
	for i := 0; i < 4; i++ {
		s.randomCall(r, c)
	}
	s.flush()
	c.Cov.Eval("alias "+s.key(), true)
	c.Cov.Hit("adversarial.caller-reuses-ctor-slice")
	s.submit(c, "ctor-aliases-caller-slice")
}

// ---------------------------------------------------------------- the suite

func suiteC19(c *Ctx) {
	c.Cov.Rule = "one case = one multi reporter (plain or cached) over 0..5 recording children + one random history (all call kinds incl. handles and histogram buckets, Capabilities, Flush); " +
		"ALL 1365 capability vectors for 0..5 children x both flavours are enumerated in every tier, then random (children, caps, longer histories); " +
		"nontrivial = (>= 2 children and >= 2 forwarded calls) or (0 children and >= 1 call); distinct by (flavour, capability vector, full call list). " +
		"Plus negative controls (tampered observations the oracle must reject), a malformed-line stream (must be bad-op) and the adversarial constructor-slice-reuse probe"
	c.Cov.Exhaustive = false
	c19MalformedStream(c)

	rounds := c.N(1, 4)
	for round := 0; round < rounds; round++ {
		for n := 0; n <= 5; n++ {
			reps := 1 // few capability vectors for few children: repeat so that 0, 1 and 2 children get >= 64 histories per flavour
			if v := 1 << (2 * uint(n)); v < 64 {
				reps = 64 / v
			}
			for _, caps := range c19AllCaps(n) {
				for k := 0; k < 2*reps; k++ {
					fl := []string{"plain", "cached"}[k%2]
					r := c.Rng.Fork()
					length := r.Range(3, 10)
					if round > 0 {
						length = r.Range(8, 40)
					}
					s := c19RunSession(c, r, fl, caps, length)
					s.count(c)
					ok := s.submit(c, "")
					if ok && r.Intn(8) == 0 {
						c19NegativeControl(c, s, r)
					}
				}
			}
		}
	}
	c.Cov.Hit("caps-vectors.enumerated-per-round-1365")

	// random configurations with long histories
	nr := c.N(300, 4000)
	for i := 0; i < nr; i++ {
		r := c.Rng.Fork()
		n := r.Intn(6)
		caps := make([]capsT, n)
		for j := range caps {
			caps[j] = capsT{r.Intn(4) != 0, r.Intn(4) != 0}
		}
		fl := "plain"
		if r.Bool() {
			fl = "cached"
		}
		length := r.Range(20, 120)
		if c.Thorough() && i%50 == 0 {
			length = 400
		}
		if n >= 2 && r.Chance(45) {
			// nested configuration: some children are multi reporters themselves (every position, sizes 2-4)
			left := n
			var shape []int
			for left > 0 {
				g := []int{1, 1, 2, 2, 3, 4}[r.Intn(6)]
				if g > left {
					g = left
				}
				shape = append(shape, g)
				left -= g
			}
			c19Shape = shape
			c.Cov.Hit("children.nested")
		}
		if n >= 1 && r.Chance(20) {
			// one child is a stateless VALUE (the zero value of its type), as tally.NullStatsReporter is
			c19ZeroAt = r.Intn(n)
			c.Cov.Hit("children.one-is-a-zero-value")
		}
		s := c19RunSession(c, r, fl, caps, length)
		s.count(c)
		ok := s.submit(c, "")
		if ok && i%10 == 0 {
			c19NegativeControl(c, s, r)
		}
	}

	// The constructors keep the caller's variadic slice for Report*/Allocate* (and a copy for
	// Flush/Capabilities); a caller who mutates that slice after construction redirects calls. That is
	// outside C19's quantifier (call histories on a constructed multi reporter), so the probe
	// (c19AliasProbe) is not part of the check; it is kept for reference.
	_ = c19AliasProbe
}
