package main

import (
	"fmt"
	"sync"
	"sync/atomic"
	"time"

	tally "github.com/uber-go/tally/v4"
	"github.com/uber-go/tally/v4/multi"
)

// c19conc: "every report and flush made on a multi reporter results in exactly one identical call on each
// child" when calls on the multi reporter OVERLAP (a periodic flush and a final flush at shutdown, reports from
// several goroutines).  Children count their calls; the first child can be made to block inside a call until
// released, so that a second call on the multi reporter arrives while the first is still inside a child.
// Oracle: when everything has returned, every child has seen exactly as many Flush / ReportCounter calls as were
// made on the multi reporter, with the reported values as a multiset.

func init() {
	register("c19conc", "C19", "", suiteC19Conc)
	register("c19fault", "C19", "", suiteC19Fault)
}

type c19cChild struct {
	flushes, counts int64
	sum             int64
	gate            chan struct{} // when non-nil, the first call blocks here
	entered         chan struct{}
	once            sync.Once
}

func (c *c19cChild) block() {
	if c.gate == nil {
		return
	}
	first := false
	c.once.Do(func() { first = true })
	if first {
		close(c.entered)
		<-c.gate
	}
}
func (c *c19cChild) ReportCounter(name string, tags map[string]string, v int64) {
	c.block()
	atomic.AddInt64(&c.counts, 1)
	atomic.AddInt64(&c.sum, v)
}
func (c *c19cChild) ReportGauge(name string, tags map[string]string, v float64)       {}
func (c *c19cChild) ReportTimer(name string, tags map[string]string, d time.Duration) {}
func (c *c19cChild) ReportHistogramValueSamples(string, map[string]string, tally.Buckets, float64, float64, int64) {
}
func (c *c19cChild) ReportHistogramDurationSamples(string, map[string]string, tally.Buckets, time.Duration, time.Duration, int64) {
}
func (c *c19cChild) Capabilities() tally.Capabilities { return capsT{true, true} }
func (c *c19cChild) Flush()                           { c.block(); atomic.AddInt64(&c.flushes, 1) }

type c19cCached struct{ c19cChild }

type c19cHandle struct{ c *c19cCached }

func (h c19cHandle) ReportCount(v int64) {
	h.c.block()
	atomic.AddInt64(&h.c.counts, 1)
	atomic.AddInt64(&h.c.sum, v)
}
func (c *c19cCached) AllocateCounter(string, map[string]string) tally.CachedCount {
	return c19cHandle{c}
}
func (c *c19cCached) AllocateGauge(string, map[string]string) tally.CachedGauge { return nil }
func (c *c19cCached) AllocateTimer(string, map[string]string) tally.CachedTimer { return nil }
func (c *c19cCached) AllocateHistogram(string, map[string]string, tally.Buckets) tally.CachedHistogram {
	return nil
}

func runC19Conc(c *Ctx, r *Rng) {
	nKids := r.Range(1, 4)
	cached := r.Bool()
	blockOn := []string{"flush", "report"}[r.Intn(2)]
	nFlush, nRep := r.Range(1, 3), r.Range(0, 3)
	if blockOn == "report" && nRep == 0 {
		nRep = 1
	}
	var flush func()
	var report func(v int64)
	var kids []*c19cChild
	gate, entered := make(chan struct{}), make(chan struct{})
	if cached {
		var rs []tally.CachedStatsReporter
		for i := 0; i < nKids; i++ {
			k := &c19cCached{}
			if i == 0 {
				k.gate, k.entered = gate, entered
			}
			kids = append(kids, &k.c19cChild)
			rs = append(rs, k)
		}
		m := multi.NewMultiCachedReporter(rs...)
		h := m.AllocateCounter("c", nil)
		flush, report = m.Flush, h.ReportCount
	} else {
		var rs []tally.StatsReporter
		for i := 0; i < nKids; i++ {
			k := &c19cChild{}
			if i == 0 {
				k.gate, k.entered = gate, entered
			}
			kids = append(kids, k)
			rs = append(rs, k)
		}
		m := multi.NewMultiReporter(rs...)
		flush, report = m.Flush, func(v int64) { m.ReportCounter("c", nil, v) }
	}
	// the first call of the kind chosen blocks inside child 0; all other calls are issued while it is in there
	var wg sync.WaitGroup
	first := func() {
		if blockOn == "flush" {
			flush()
		} else {
			report(1000)
		}
	}
	wg.Add(1)
	go func() { defer wg.Done(); first() }()
	stuck := false
	select {
	case <-entered:
	case <-time.After(2 * time.Second):
		stuck = true
	}
	wantFlush, wantRep, wantSum := int64(0), int64(0), int64(0)
	if blockOn == "flush" {
		wantFlush++
	} else {
		wantRep++
		wantSum += 1000
	}
	done := make(chan struct{})
	go func() {
		var w2 sync.WaitGroup
		for i := 0; i < nFlush; i++ {
			w2.Add(1)
			go func() { defer w2.Done(); flush() }()
		}
		for i := 0; i < nRep; i++ {
			v := int64(i + 1)
			w2.Add(1)
			go func() { defer w2.Done(); report(v) }()
		}
		w2.Wait()
		close(done)
	}()
	wantFlush += int64(nFlush)
	wantRep += int64(nRep)
	for i := 0; i < nRep; i++ {
		wantSum += int64(i + 1)
	}
	// let the overlapping calls run into the multi reporter, then release the blocked child
	time.Sleep(time.Duration(r.Range(200, 1500)) * time.Microsecond)
	close(gate)
	wg.Wait()
	select {
	case <-done:
	case <-time.After(3 * time.Second):
		stuck = true
	}
	line := fmt.Sprintf("cached=%v children=%d first=%s then %d Flush + %d ReportCounter calls while child 0 is inside the first call", cached, nKids, blockOn, nFlush, nRep)
	if stuck {
		c.Cov.Fail(Failure{Kind: "crash", Clause: "deadlock", Signature: "c19-concurrent", Line: line, Reply: "calls on the multi reporter did not return"})
		return
	}
	for i, k := range kids {
		gf, gc, gs := atomic.LoadInt64(&k.flushes), atomic.LoadInt64(&k.counts), atomic.LoadInt64(&k.sum)
		if gf != wantFlush || gc != wantRep || gs != wantSum {
			c.Cov.Fail(Failure{Kind: "violated", Clause: "each-call-reaches-every-child-exactly-once", Signature: "c19-concurrent", Line: line,
				Reply: fmt.Sprintf("child %d saw %d Flush and %d counter calls (sum %d); the multi reporter was called %d / %d times (sum %d)", i, gf, gc, gs, wantFlush, wantRep, wantSum)})
			return
		}
	}
	c.Cov.Eval(line, true)
	c.Cov.Hit("first." + blockOn)
}

// c19cCapsChild answers Capabilities() with fixed values; the first call can be held inside the child
type c19cCapsChild struct {
	c19cChild
	caps capsT
}

func (c *c19cCapsChild) Capabilities() tally.Capabilities { c.block(); return c.caps }

type c19cCapsCached struct {
	c19cCached
	caps capsT
}

func (c *c19cCapsCached) Capabilities() tally.Capabilities { c.block(); return c.caps }

// runC19Caps: an answer of Capabilities() is a value: once returned it says what the conjunction was, whatever other
// callers are doing.  Caller B gets an answer (false: child 1 is not capable); caller A then calls Capabilities() and is
// held inside child 0; while A is in there B reads its answer again: still false.  Then A is released and must get the
// conjunction too.
func runC19Caps(c *Ctx, cachedFlavour bool) {
	gate, entered := make(chan struct{}), make(chan struct{})
	var capsOf func() tally.Capabilities
	var k0 *c19cChild
	if cachedFlavour {
		a := &c19cCapsCached{caps: capsT{true, true}}
		b := &c19cCapsCached{caps: capsT{false, false}}
		k0 = &a.c19cChild
		m := multi.NewMultiCachedReporter(a, b)
		capsOf = m.Capabilities
	} else {
		a := &c19cCapsChild{caps: capsT{true, true}}
		b := &c19cCapsChild{caps: capsT{false, false}}
		k0 = &a.c19cChild
		m := multi.NewMultiReporter(a, b)
		capsOf = m.Capabilities
	}
	line := fmt.Sprintf("flavour cached=%v, children [capable, not capable]: B obtains an answer; A calls Capabilities() and is held inside child 0; B reads its answer again", cachedFlavour)
	fail := func(why string) {
		c.Cov.Fail(Failure{Kind: "violated", Clause: "capabilities-conjunction", Signature: "c19conc-caps-answer-changes", Line: line, Reply: why})
	}
	ansB := capsOf() // (the gate is not armed yet: block() passes while gate == nil)
	if ansB.Reporting() || ansB.Tagging() {
		fail("the answer is not the conjunction (one child is capable of nothing)")
		return
	}
	k0.gate, k0.entered = gate, entered
	got := make(chan tally.Capabilities, 1)
	go func() { got <- capsOf() }()
	select {
	case <-entered:
	case <-time.After(10 * time.Second):
		close(gate)
		c.Cov.Fail(Failure{Kind: "crash", Clause: "setup", Signature: "c19conc-caps-no-entry", Line: line})
		return
	}
	r1, t1 := ansB.Reporting(), ansB.Tagging()
	close(gate)
	ansA := <-got
	if r1 || t1 {
		fail(fmt.Sprintf("while another caller was inside Capabilities(), the answer B had been given earlier read reporting=%v tagging=%v (the conjunction is false, false)", r1, t1))
		return
	}
	if ansA.Reporting() || ansA.Tagging() {
		fail("caller A's answer is not the conjunction")
		return
	}
	c.Cov.Eval(line, true)
	c.Cov.Hit("caps-answer-immutable")
}

// c19cPanicCached: a cached child whose allocations panic while `boom` is set (a reporter that refuses a registration
// by panicking, as the Prometheus reporter does by default)
type c19cPanicCached struct {
	c19cCached
	boom   int32
	allocs int64
}

func (c *c19cPanicCached) maybe() {
	atomic.AddInt64(&c.allocs, 1)
	if atomic.CompareAndSwapInt32(&c.boom, 1, 0) {
		panic("c19: child refuses this allocation")
	}
}
func (c *c19cPanicCached) AllocateCounter(n string, t map[string]string) tally.CachedCount {
	c.maybe()
	return c.c19cCached.AllocateCounter(n, t)
}
func (c *c19cPanicCached) AllocateGauge(n string, t map[string]string) tally.CachedGauge {
	c.maybe()
	return c.c19cCached.AllocateGauge(n, t)
}
func (c *c19cPanicCached) AllocateTimer(n string, t map[string]string) tally.CachedTimer {
	c.maybe()
	return c.c19cCached.AllocateTimer(n, t)
}
func (c *c19cPanicCached) AllocateHistogram(n string, t map[string]string, b tally.Buckets) tally.CachedHistogram {
	c.maybe()
	return c.c19cCached.AllocateHistogram(n, t, b)
}

// runC19AllocPanic: a child panics once inside an allocation and the caller recovers; every later allocation on the
// multi reporter must still reach every child exactly once (a lock left behind would block them), and a value reported
// through a handle allocated afterwards reaches every child.
func runC19AllocPanic(c *Ctx, kind int) {
	a, b := &c19cPanicCached{}, &c19cPanicCached{}
	m := multi.NewMultiCachedReporter(a, b)
	kinds := []string{"counter", "gauge", "timer", "histogram"}
	alloc := func(name string) {
		switch kind {
		case 0:
			m.AllocateCounter(name, nil)
		case 1:
			m.AllocateGauge(name, nil)
		case 2:
			m.AllocateTimer(name, nil)
		default:
			m.AllocateHistogram(name, nil, tally.ValueBuckets{1})
		}
	}
	line := fmt.Sprintf("cached multi reporter, two children; child 1 panics once inside Allocate (%s), recovered; then two more allocations and a counter report", kinds[kind])
	atomic.StoreInt32(&b.boom, 1)
	if p, _ := catch(func() { alloc("first") }); !p {
		c.Cov.Fail(Failure{Kind: "bad-op", Clause: "harness", Signature: "c19conc-alloc-fault-not-injected", Line: line})
		return
	}
	done := make(chan struct{})
	var h tally.CachedCount
	go func() {
		defer close(done)
		catch(func() {
			alloc("second")
			h = m.AllocateCounter("third", nil)
			h.ReportCount(5)
		})
	}()
	select {
	case <-done:
	case <-time.After(8 * time.Second):
		c.Cov.Fail(Failure{Kind: "crash", Clause: "no-deadlock", Signature: "c19conc-lock-held-after-child-panic", Line: line,
			Reply: "allocations on the multi reporter are stuck 8 s after a child's recovered panic"})
		return
	}
	// first: child 0 once (+ child 1 once, panicking); second and third: once on each child
	if na, nb := atomic.LoadInt64(&a.allocs), atomic.LoadInt64(&b.allocs); na != 3 || nb != 3 {
		c.Cov.Fail(Failure{Kind: "violated", Clause: "exactly-one-call-on-each-child", Signature: "c19conc-after-child-panic", Line: line,
			Reply: fmt.Sprintf("three allocations on the multi reporter; child 0 saw %d, child 1 saw %d", na, nb)})
		return
	}
	if sa, sb := atomic.LoadInt64(&a.sum), atomic.LoadInt64(&b.sum); sa != 5 || sb != 5 {
		c.Cov.Fail(Failure{Kind: "violated", Clause: "value-reaches-every-child", Signature: "c19conc-after-child-panic", Line: line,
			Reply: fmt.Sprintf("ReportCount(5) through a handle allocated after the fault: child 0 got %d, child 1 got %d", sa, sb)})
		return
	}
	c.Cov.Hit("alloc-panic." + kinds[kind])
	c.Cov.Eval(line, true)
}

// c19fault -- A PROBE, NOT PART OF ANY CHECK: a child that PANICS inside an allocation is not among the call histories
// C19 quantifies over (see DESIGN.md 10.6); kept for reference.
func suiteC19Fault(c *Ctx) {
	for k := 0; k < 4; k++ {
		runC19AllocPanic(c, k)
	}
}

func suiteC19Conc(c *Ctx) {
	runC19Caps(c, false)
	runC19Caps(c, true)
	c.Cov.Rule = "overlapping calls on a multi reporter (plain and cached, 1-4 counting children): the first Flush / report blocks inside child 0 while 1-3 further Flush and 0-3 report calls are issued from other goroutines, then it is released; oracle: every child has seen exactly as many Flush and counter calls, with the same values, as were made on the multi reporter; plus, per flavour, one scripted case: an answer of Capabilities() obtained earlier is read again while another caller is held inside a child's Capabilities() and must not have changed; every case nontrivial; distinct by configuration"
	n := c.N(60, 600)
	for i := 0; i < n; i++ {
		runC19Conc(c, c.Rng.Fork())
	}
	c.Cov.Traces = c.Cov.Evaluations
}
