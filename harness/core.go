package main

import (
	"bufio"
	"encoding/hex"
	"encoding/json"
	"fmt"
	"io"
	"math"
	"os"
	"os/exec"
	"sort"
	"strconv"
	"strings"
	"sync"
	"time"
)

// ---------------------------------------------------------------- PRNG (splitmix64)

type Rng struct{ s uint64 }

// NewRng scrambles the seed through the output mixer so that neighbouring seeds give unrelated streams.
func NewRng(seed uint64) *Rng {
	r := &Rng{s: seed ^ 0x5DEECE66D}
	r.s = r.U64() ^ (seed << 17)
	r.s = r.U64()
	return r
}

func (r *Rng) U64() uint64 {
	r.s += 0x9E3779B97F4A7C15
	z := r.s
	z = (z ^ (z >> 30)) * 0xBF58476D1CE4E5B9
	z = (z ^ (z >> 27)) * 0x94D049BB133111EB
	return z ^ (z >> 31)
}
func (r *Rng) Intn(n int) int {
	if n <= 0 {
		return 0
	}
	return int(r.U64() % uint64(n))
}
func (r *Rng) Bool() bool         { return r.U64()&1 == 1 }
func (r *Rng) Chance(p int) bool  { return r.Intn(100) < p }
func (r *Rng) Range(a, b int) int { return a + r.Intn(b-a+1) }
func (r *Rng) Fork() *Rng         { return NewRng(r.U64()) }

// ---------------------------------------------------------------- wire encoding

func hx(b []byte) string {
	if len(b) == 0 {
		return "-"
	}
	return hex.EncodeToString(b)
}
func hxs(s string) string { return hx([]byte(s)) }
func f64hex(f float64) string {
	return fmt.Sprintf("%016x", math.Float64bits(f))
}
func u64hex(u uint64) string { return fmt.Sprintf("%016x", u) }
func joinList(items []string) string {
	if len(items) == 0 {
		return "-"
	}
	return strings.Join(items, ";")
}
func f64List(fs []float64) string {
	out := make([]string, len(fs))
	for i, f := range fs {
		out[i] = f64hex(f)
	}
	return joinList(out)
}
func i64List(is []int64) string {
	out := make([]string, len(is))
	for i, v := range is {
		out[i] = strconv.FormatInt(v, 10)
	}
	return joinList(out)
}

// sorted k:v,k:v in hex; "-" for empty
func mapHex(m map[string]string) string {
	if len(m) == 0 {
		return "-"
	}
	keys := make([]string, 0, len(m))
	for k := range m {
		keys = append(keys, k)
	}
	sort.Strings(keys)
	out := make([]string, len(keys))
	for i, k := range keys {
		out[i] = hxs(k) + ":" + hxs(m[k])
	}
	return strings.Join(out, ",")
}

// ---------------------------------------------------------------- driver client

type Driver struct {
	cmd *exec.Cmd
	in  *bufio.Writer
	out *bufio.Reader
	mu  sync.Mutex
	log *os.File
}

func StartDriver(suite string) *Driver {
	path := os.Getenv("TALLYDRV")
	if path == "" {
		path = "/verif/lean/.lake/build/bin/tallydrv"
	}
	cmd := exec.Command(path, suite)
	stdin, err := cmd.StdinPipe()
	must(err)
	stdout, err := cmd.StdoutPipe()
	must(err)
	cmd.Stderr = os.Stderr
	must(cmd.Start())
	d := &Driver{cmd: cmd, in: bufio.NewWriterSize(stdin, 1<<16), out: bufio.NewReaderSize(stdout, 1<<16)}
	if p := os.Getenv("VERIF_TRACE"); p != "" {
		d.log, _ = os.Create(p)
	}
	return d
}

// Ask sends one protocol line and returns the driver's reply.
func (d *Driver) Ask(line string) string {
	d.mu.Lock()
	defer d.mu.Unlock()
	if strings.ContainsAny(line, "\n\r") {
		fatalf("protocol line contains newline: %q", line)
	}
	d.in.WriteString(line)
	d.in.WriteByte('\n')
	must(d.in.Flush())
	reply, err := d.out.ReadString('\n')
	if err != nil && err != io.EOF {
		fatalf("driver read: %v", err)
	}
	reply = strings.TrimRight(reply, "\n")
	if d.log != nil {
		fmt.Fprintf(d.log, "%s\n  -> %s\n", line, reply)
	}
	if reply == "" {
		fatalf("driver died on line: %s", line)
	}
	return reply
}

func (d *Driver) Close() {
	d.mu.Lock()
	defer d.mu.Unlock()
	d.in.Flush()
	if c, ok := d.cmd.Stdin.(io.Closer); ok {
		_ = c
	}
	d.cmd.Process.Kill()
	d.cmd.Wait()
}

// ---------------------------------------------------------------- coverage + failures

type Failure struct {
	Kind      string `json:"kind"`      // differ | violated | crash | bad-op
	Clause    string `json:"clause"`    // which clause of the spec / which comparison
	Signature string `json:"signature"` // stable class of the failing input, used for known-findings matching
	Line      string `json:"line"`
	Reply     string `json:"reply"`
	Replay    string `json:"replay,omitempty"`
	Detail    string `json:"detail,omitempty"`
}

type Cov struct {
	mu          sync.Mutex
	Property    string         `json:"property"`
	Suite       string         `json:"suite"`
	Seed        uint64         `json:"seed"`
	Tier        string         `json:"tier"`
	Evaluations int            `json:"evaluations"`
	Nontrivial  int            `json:"distinct_nontrivial"`
	Rule        string         `json:"rule"`
	Samples     []string       `json:"samples"`
	Dist        map[string]int `json:"distribution"`
	Traces      int            `json:"traces_validated_against_impl"`
	Schedules   int            `json:"schedules"`
	Exhaustive  bool           `json:"exhaustive"`
	Failures    []Failure      `json:"failures"`
	WallS       float64        `json:"wall_s"`
	Notes       []string       `json:"notes,omitempty"`
	seen        map[string]bool
	start       time.Time
	maxSamples  int
}

func NewCov(prop, suite string, seed uint64, tier string) *Cov {
	return &Cov{Property: prop, Suite: suite, Seed: seed, Tier: tier, Dist: map[string]int{},
		seen: map[string]bool{}, start: time.Now(), maxSamples: 6, Failures: []Failure{}, Samples: []string{}}
}

func (c *Cov) Hit(key string) {
	c.mu.Lock()
	c.Dist[key]++
	c.mu.Unlock()
}
func (c *Cov) HitN(key string, n int) {
	c.mu.Lock()
	c.Dist[key] += n
	c.mu.Unlock()
}

// Eval records one evaluated case; nontrivial cases are counted once per distinct key.
func (c *Cov) Eval(caseKey string, nontrivial bool) {
	c.mu.Lock()
	defer c.mu.Unlock()
	c.Evaluations++
	if nontrivial && !c.seen[caseKey] {
		c.seen[caseKey] = true
		c.Nontrivial++
		if len(c.Samples) < c.maxSamples {
			s := caseKey
			if len(s) > 400 {
				s = s[:400] + "…"
			}
			c.Samples = append(c.Samples, s)
		}
	}
}

func (c *Cov) Fail(f Failure) {
	c.mu.Lock()
	defer c.mu.Unlock()
	// keep a few representatives per class so that a frequent class cannot crowd out a rare one
	class := "failure-class." + f.Kind + "/" + f.Clause + "/" + f.Signature
	if c.Dist[class] < 4 && len(c.Failures) < 200 {
		c.Failures = append(c.Failures, f)
	}
	c.Dist[class]++
	c.Dist["failures."+f.Kind]++
}

// Check interprets a driver reply for a differential line.
func (c *Cov) Check(d *Driver, line string, sig string) bool {
	reply := d.Ask(line)
	switch {
	case reply == "ok":
		return true
	case strings.HasPrefix(reply, "differ"):
		c.Fail(Failure{Kind: "differ", Clause: "model-vs-implementation", Signature: sig, Line: line, Reply: reply})
	case strings.HasPrefix(reply, "violated"):
		parts := strings.Fields(reply)
		clause := ""
		if len(parts) > 1 {
			clause = parts[1]
		}
		c.Fail(Failure{Kind: "violated", Clause: clause, Signature: sig, Line: line, Reply: reply})
	default:
		c.Fail(Failure{Kind: "bad-op", Clause: "protocol", Signature: sig, Line: line, Reply: reply})
	}
	return false
}

func (c *Cov) Write(path string) {
	c.WallS = time.Since(c.start).Seconds()
	b, _ := json.MarshalIndent(c, "", " ")
	must(os.WriteFile(path, b, 0o644))
}

// ---------------------------------------------------------------- misc

func must(err error) {
	if err != nil {
		fatalf("%v", err)
	}
}

func fatalf(format string, args ...interface{}) {
	fmt.Fprintf(os.Stderr, "harness: "+format+"\n", args...)
	os.Exit(2)
}

// catch runs f and reports whether it panicked (and with what).
func catch(f func()) (panicked bool, val interface{}) {
	defer func() {
		if r := recover(); r != nil {
			panicked, val = true, r
		}
	}()
	f()
	return
}
