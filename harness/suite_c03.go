package main

import (
	"fmt"
	"math"
	"sort"
	"strconv"
	"strings"
	"time"

	tally "github.com/uber-go/tally/v4"
)

func init() { register("c03", "C03", "c03", suiteC03) }

var c03ValuePool = []float64{0, math.Copysign(0, -1), 1, -1, 0.5, 2, 2.5, 10, -10, 100, 1e-300, -1e-300, 5e-324, -5e-324,
	1e300, -1e300, math.MaxFloat64, -math.MaxFloat64, 3, 7, 0.1, 0.2, 0.30000000000000004, 1e15, 123456.789}

var c03DurPool = []int64{0, 1, -1, 2, 10, 1000, 1e6, 1e9, -1e9, 5e9, 60e9, math.MaxInt64, math.MinInt64, math.MaxInt64 - 1,
	math.MinInt64 + 1, 3, 7, 25e6, 50e6, 75e6}

func genValueSpec(r *Rng) []float64 {
	if r.Chance(12) {
		// evenly spaced bounds as the library's own constructor makes them (start + i*width, rounded as computed), with
		// widths that are not binary fractions: a bound is then not "the i-th multiple" in floating point
		w := []float64{0.1, 0.05, 0.3, 0.7, 1e-3, 2.5e-10, 1.0 / 3, 1e15 / 3}[r.Intn(8)]
		st := []float64{0, 0.1, -1, 1e6, -0.35}[r.Intn(5)]
		return append([]float64(nil), tally.MustMakeLinearValueBuckets(st, w, r.Range(3, 24))...)
	}
	n := 0
	switch r.Intn(10) {
	case 0:
		n = 0
	case 1:
		n = 1
	case 2:
		n = r.Range(33, 64)
	default:
		n = r.Range(2, 12)
	}
	out := make([]float64, n)
	extreme := r.Chance(12) // a specification that contains an extreme of the type as a bound
	for i := range out {
		if extreme && (i == 0 || r.Chance(20)) {
			out[i] = []float64{math.MaxFloat64, -math.MaxFloat64}[r.Intn(2)]
			continue
		}
		switch r.Intn(4) {
		case 0:
			out[i] = c03ValuePool[r.Intn(len(c03ValuePool))]
		case 1:
			out[i] = float64(r.Range(-5, 5))
		case 2:
			out[i] = math.Float64frombits(r.U64())
			if math.IsNaN(out[i]) || math.IsInf(out[i], 0) {
				out[i] = float64(r.Range(-100, 100)) / 7
			}
		default:
			out[i] = float64(r.Range(-1000, 1000)) / 8
		}
	}
	return out
}

func genDurSpec(r *Rng) []int64 {
	n := 0
	switch r.Intn(10) {
	case 0:
		n = 0
	case 1:
		n = 1
	case 2:
		n = r.Range(33, 64)
	default:
		n = r.Range(2, 12)
	}
	out := make([]int64, n)
	extreme := r.Chance(12)
	for i := range out {
		if extreme && (i == 0 || r.Chance(20)) {
			out[i] = []int64{math.MaxInt64, math.MinInt64}[r.Intn(2)]
			continue
		}
		switch r.Intn(4) {
		case 0:
			out[i] = c03DurPool[r.Intn(len(c03DurPool))]
		case 1:
			out[i] = int64(r.Range(-5, 5))
		case 2:
			out[i] = int64(r.U64())
		default:
			out[i] = int64(r.Range(-1000, 1000)) * 1e6
		}
	}
	return out
}

func valueSamples(r *Rng, spec []float64, n int) []float64 {
	var out []float64
	for len(out) < n {
		switch r.Intn(10) {
		case 0, 1, 2:
			if len(spec) > 0 {
				out = append(out, spec[r.Intn(len(spec))])
				continue
			}
			fallthrough
		case 3:
			if len(spec) > 0 {
				out = append(out, math.Nextafter(spec[r.Intn(len(spec))], math.Inf(1)))
				continue
			}
			fallthrough
		case 4:
			if len(spec) > 0 {
				out = append(out, math.Nextafter(spec[r.Intn(len(spec))], math.Inf(-1)))
				continue
			}
			fallthrough
		case 5:
			out = append(out, []float64{math.Inf(1), math.Inf(-1), math.NaN(), math.MaxFloat64, -math.MaxFloat64,
				math.Float64frombits(0x7ff8000000000001), math.Float64frombits(0xfff0000000000001), 0, math.Copysign(0, -1)}[r.Intn(9)])
		case 6:
			out = append(out, math.Float64frombits(r.U64()))
		default:
			out = append(out, float64(r.Range(-1100, 1100))/8)
		}
	}
	return out
}

func durSamples(r *Rng, spec []int64, n int) []int64 {
	var out []int64
	for len(out) < n {
		switch r.Intn(10) {
		case 0, 1, 2:
			if len(spec) > 0 {
				out = append(out, spec[r.Intn(len(spec))])
				continue
			}
			fallthrough
		case 3:
			if len(spec) > 0 {
				out = append(out, spec[r.Intn(len(spec))]+1) // wraps at MaxInt64, which is the point
				continue
			}
			fallthrough
		case 4:
			if len(spec) > 0 {
				out = append(out, spec[r.Intn(len(spec))]-1)
				continue
			}
			fallthrough
		case 5:
			out = append(out, []int64{math.MaxInt64, math.MinInt64, 0, -1, 1}[r.Intn(5)])
		case 6:
			out = append(out, int64(r.U64()))
		default:
			out = append(out, int64(r.Range(-1100, 1100))*1e6)
		}
	}
	return out
}

func toDurs(is []int64) tally.DurationBuckets {
	out := make(tally.DurationBuckets, len(is))
	for i, v := range is {
		out[i] = time.Duration(v)
	}
	return out
}

func suiteC03(c *Ctx) {
	c.Cov.Rule = "random value/duration bucket specs (0..64 bounds, unsorted, duplicates, negatives, ±0, extremes) x samples at bounds, one ulp / 1ns either side, extremes, ±Inf, NaN; a case is nontrivial when the sample equals a bound, is adjacent to one, is non-finite or an extreme, or the spec has duplicates/unsorted order; distinct by (spec, sample)"
	n := c.N(400, 6000)
	for i := 0; i < n; i++ {
		r := c.Rng.Fork()
		if r.Bool() {
			c03ValueCase(c, r)
		} else {
			c03DurationCase(c, r)
		}
	}
}

func isSortedF(a []float64) bool {
	return sort.SliceIsSorted(a, func(i, j int) bool { return a[i] < a[j] })
}

func c03ValueCase(c *Ctx, r *Rng) {
	spec := genValueSpec(r)
	orig := append([]float64(nil), spec...)
	var vb tally.Buckets = tally.ValueBuckets(spec)
	useNil := len(spec) == 0 && r.Bool()
	specTok := f64List(spec)

	// (a) BucketPairs
	pairs := tally.BucketPairs(vb)
	lows, ups := make([]float64, len(pairs)), make([]float64, len(pairs))
	for i, p := range pairs {
		lows[i], ups[i] = p.LowerBoundValue(), p.UpperBoundValue()
	}
	c.Cov.Check(c.Drv, fmt.Sprintf("pairs v %s => %s %s", specTok, f64List(lows), f64List(ups)), "pairs-value")
	for i := range spec {
		if math.Float64bits(spec[i]) != math.Float64bits(orig[i]) {
			c.Cov.Fail(Failure{Kind: "violated", Clause: "pairs-pure", Signature: "pairs-mutated-caller-slice", Line: "pairs v " + specTok})
			break
		}
	}
	c.Cov.Hit(fmt.Sprintf("value.speclen.%s", lenClass(len(spec))))
	dups := hasDupF(spec)
	if dups {
		c.Cov.Hit("value.spec.duplicates")
	}
	if !isSortedF(spec) {
		c.Cov.Hit("value.spec.unsorted")
	}

	// (b) cached path: exact bucket index per sample
	rc := newRecCached()
	root, closer := tally.VerifNewRootScope(tally.ScopeOptions{CachedReporter: rc, OmitCardinalityMetrics: true, DefaultBuckets: vb}, 0, 1)
	abandon := false // after a recovered panic inside a pass the registry's locks are still held: Close would never return
	defer func() {
		if !abandon {
			catch(func() { closer.Close() })
		}
	}()
	var h tally.Histogram
	if useNil {
		h = root.Histogram("h", nil)
		// nil -> scope defaults; with an empty value spec given as DefaultBuckets the scope falls back to its own duration defaults
		return
	}
	h = root.Histogram("h", vb)
	var cups []float64
	for _, e := range rc.log.Take() {
		if e.Kind == "bucket-v" {
			cups = append(cups, e.HiF)
		}
	}
	samples := valueSamples(r, spec, 12)
	for _, v := range samples {
		res := "none"
		panicked, _ := catch(func() { h.RecordValue(v) })
		if panicked {
			res = "panic"
		} else {
			h.RecordDuration(time.Duration(r.U64())) // a value histogram ignores durations
			if pp, pv := catch(func() { tally.VerifReportOnce(root) }); pp {
				c.Cov.Fail(Failure{Kind: "violated", Clause: "no-panic", Signature: "report-pass-panics-value-histogram", Line: "spec v " + f64List(spec) + " sample " + f64hex(v), Reply: fmt.Sprint(pv)})
				abandon = true
				return
			}
			cnt := 0
			for _, e := range rc.log.Take() {
				if e.Kind == "samples" {
					cnt++
					res = strconv.Itoa(e.Idx)
					if e.I != 1 {
						res = fmt.Sprintf("%d*%d", e.Idx, e.I)
					}
				}
			}
			if cnt > 1 {
				res = "multiple"
			}
			if cnt == 0 && math.IsNaN(v) {
				res = "nan-dropped"
			}
		}
		key := "place v " + f64List(cups) + " " + f64hex(v)
		nontriv := dups || !isSortedF(spec) || math.IsNaN(v) || math.IsInf(v, 0) || math.Abs(v) == math.MaxFloat64
		for _, b := range spec {
			if v == b || v == math.Nextafter(b, math.Inf(1)) || v == math.Nextafter(b, math.Inf(-1)) {
				nontriv = true
				c.Cov.Hit("value.sample.at-or-adjacent-bound")
				break
			}
		}
		if math.IsNaN(v) {
			c.Cov.Hit("value.sample.nan")
		} else if math.IsInf(v, 0) {
			c.Cov.Hit("value.sample.inf")
		}
		c.Cov.Eval(key, nontriv)
		sig := "place-value-finite"
		if math.IsNaN(v) {
			sig = "place-value-nan"
		} else if math.IsInf(v, 1) {
			sig = "place-value-posinf"
		} else if math.IsInf(v, -1) {
			sig = "place-value-neginf"
		}
		if res == "nan-dropped" {
			continue // allowed: "a NaN in at most one bucket"
		}
		c.Cov.Check(c.Drv, key+" => "+res, sig)
	}

	// (c) whole-history conservation through the plain reporter, tuples
	rp := newRec()
	root2, closer2 := tally.VerifNewRootScope(tally.ScopeOptions{Reporter: rp, OmitCardinalityMetrics: true}, 0, 1)
	defer func() { catch(func() { closer2.Close() }) }()
	h2 := root2.Histogram("h", vb)
	var fin []float64
	for _, v := range samples {
		if panicked, _ := catch(func() { h2.RecordValue(v) }); !panicked {
			fin = append(fin, v)
		}
	}
	tally.VerifReportOnce(root2)
	var tups []string
	for _, e := range rp.log.Take() {
		if e.Kind == "hval" {
			tups = append(tups, fmt.Sprintf("%s:%s:%d", f64hex(e.LoF), f64hex(e.HiF), e.I))
		}
	}
	sort.Strings(tups)
	c.Cov.Check(c.Drv, fmt.Sprintf("tuples v %s %s => %s", specTok, f64List(fin), joinList(tups)), "tuples-value")
	// second pass with no new samples must be silent
	tally.VerifReportOnce(root2)
	for _, e := range rp.log.Take() {
		if e.Kind == "hval" {
			c.Cov.Fail(Failure{Kind: "violated", Clause: "idle-silent", Signature: "histogram-idle-pass-delivers", Line: "tuples v " + specTok})
		}
	}
}

func c03DurationCase(c *Ctx, r *Rng) {
	spec := genDurSpec(r)
	orig := append([]int64(nil), spec...)
	db := toDurs(spec)
	specTok := i64List(spec)
	pairs := tally.BucketPairs(db)
	lows, ups := make([]int64, len(pairs)), make([]int64, len(pairs))
	for i, p := range pairs {
		lows[i], ups[i] = int64(p.LowerBoundDuration()), int64(p.UpperBoundDuration())
	}
	c.Cov.Check(c.Drv, fmt.Sprintf("pairs d %s => %s %s", specTok, i64List(lows), i64List(ups)), "pairs-duration")
	for i := range db {
		if int64(db[i]) != orig[i] {
			c.Cov.Fail(Failure{Kind: "violated", Clause: "pairs-pure", Signature: "pairs-mutated-caller-slice", Line: "pairs d " + specTok})
			break
		}
	}
	c.Cov.Hit(fmt.Sprintf("duration.speclen.%s", lenClass(len(spec))))
	dups := hasDupI(spec)
	if dups {
		c.Cov.Hit("duration.spec.duplicates")
	}
	sorted := sort.SliceIsSorted(spec, func(i, j int) bool { return spec[i] < spec[j] })
	if !sorted {
		c.Cov.Hit("duration.spec.unsorted")
	}

	rc := newRecCached()
	opts := tally.ScopeOptions{CachedReporter: rc, OmitCardinalityMetrics: true}
	useNil := r.Intn(8) == 0
	if useNil && len(spec) > 0 {
		opts.DefaultBuckets = db
	}
	root, closer := tally.VerifNewRootScope(opts, 0, 1)
	abandon := false // after a recovered panic inside a pass the registry's locks are still held: Close would never return
	defer func() {
		if !abandon {
			catch(func() { closer.Close() })
		}
	}()
	var h tally.Histogram
	if useNil && len(spec) > 0 {
		h = root.Histogram("h", nil)
		c.Cov.Hit("duration.nil-means-defaults")
	} else {
		h = root.Histogram("h", db)
	}
	var cups []int64
	for _, e := range rc.log.Take() {
		if e.Kind == "bucket-d" {
			cups = append(cups, int64(e.HiD))
		}
	}
	samples := durSamples(r, spec, 12)
	for _, v := range samples {
		res := "none"
		panicked, _ := catch(func() { h.RecordDuration(time.Duration(v)) })
		if panicked {
			res = "panic"
		} else {
			h.RecordValue(float64(v)) // a duration histogram ignores values
			if pp, pv := catch(func() { tally.VerifReportOnce(root) }); pp {
				c.Cov.Fail(Failure{Kind: "violated", Clause: "no-panic", Signature: "report-pass-panics-duration-histogram", Line: "spec d " + i64List(spec) + fmt.Sprintf(" sample %d", v), Reply: fmt.Sprint(pv)})
				abandon = true
				return
			}
			cnt := 0
			for _, e := range rc.log.Take() {
				if e.Kind == "samples" {
					cnt++
					res = strconv.Itoa(e.Idx)
					if e.I != 1 {
						res = fmt.Sprintf("%d*%d", e.Idx, e.I)
					}
				}
			}
			if cnt > 1 {
				res = "multiple"
			}
		}
		key := "place d " + i64List(cups) + " " + strconv.FormatInt(v, 10)
		nontriv := dups || !sorted || v == math.MaxInt64 || v == math.MinInt64
		for _, b := range spec {
			if v == b || v == b+1 || v == b-1 {
				nontriv = true
				c.Cov.Hit("duration.sample.at-or-adjacent-bound")
				break
			}
		}
		c.Cov.Eval(key, nontriv)
		c.Cov.Check(c.Drv, key+" => "+res, "place-duration")
	}

	rp := newRec()
	root2, closer2 := tally.VerifNewRootScope(tally.ScopeOptions{Reporter: rp, OmitCardinalityMetrics: true}, 0, 1)
	defer func() { catch(func() { closer2.Close() }) }()
	h2 := root2.Histogram("h", db)
	for _, v := range samples {
		h2.RecordDuration(time.Duration(v))
	}
	tally.VerifReportOnce(root2)
	var tups []string
	for _, e := range rp.log.Take() {
		if e.Kind == "hdur" {
			tups = append(tups, fmt.Sprintf("%d:%d:%d", int64(e.LoD), int64(e.HiD), e.I))
		}
	}
	sort.Strings(tups)
	c.Cov.Check(c.Drv, fmt.Sprintf("tuples d %s %s => %s", specTok, i64List(samples), joinList(tups)), "tuples-duration")
}

func lenClass(n int) string {
	switch {
	case n == 0:
		return "0"
	case n == 1:
		return "1"
	case n <= 12:
		return "2-12"
	default:
		return "13-64"
	}
}
func hasDupF(a []float64) bool {
	for i := range a {
		for j := i + 1; j < len(a); j++ {
			if a[i] == a[j] {
				return true
			}
		}
	}
	return false
}
func hasDupI(a []int64) bool {
	for i := range a {
		for j := i + 1; j < len(a); j++ {
			if a[i] == a[j] {
				return true
			}
		}
	}
	return false
}

var _ = strings.Join
