package main

import (
	"fmt"
	"io"
	"sort"
	"time"

	tally "github.com/uber-go/tally/v4"
)

// c11big: two model-independent scenarios of C11 that the scope programs do not reach.
//  (a) "timer values are all recorded durations in order" for LONG histories on one timer (around and beyond 2^16
//      values, on the root and on a derived scope).
//  (b) "test scopes and their metrics survive Close of a subscope and remain visible in later snapshots" when the
//      handle that is closed was derived with an empty derivation - Tagged(nil), Tagged({}), the test scope's own tags
//      again, SubScope("") - or is an ordinary sub-scope: everything recorded before the Close is in the snapshot
//      taken afterwards, unchanged.

func init() {
	register("c11big", "C11", "", suiteC11Big)
}

func c11SnapLines(s tally.Snapshot) []string {
	var out []string
	for k, c := range s.Counters() {
		out = append(out, fmt.Sprintf("counter %q = %d", k, c.Value()))
	}
	for k, g := range s.Gauges() {
		out = append(out, fmt.Sprintf("gauge %q = %v", k, g.Value()))
	}
	for k, t := range s.Timers() {
		out = append(out, fmt.Sprintf("timer %q = %v", k, t.Values()))
	}
	for k, h := range s.Histograms() {
		out = append(out, fmt.Sprintf("histogram %q = %v %v", k, h.Values(), h.Durations()))
	}
	sort.Strings(out)
	return out
}

func suiteC11Big(c *Ctx) {
	c.Cov.Rule = "(a) one timer of a test scope (root / derived scope) with 65535, 65536, 65537, 70000 and 140000 records: the snapshot holds all of them in order; (b) a test scope (with and without own tags and prefix) carrying counters, gauges, timers and histograms on the root, a sub-scope and a tagged scope; a handle derived by Tagged(nil), Tagged({}), the scope's own tags, SubScope(\"\"), or an ordinary sub-scope / tagged scope is closed: the snapshot taken afterwards equals the one taken before; every case nontrivial"
	for _, derived := range []bool{false, true} {
		for _, n := range []int{65535, 65536, 65537, 70000, 140000} {
			ts := tally.NewTestScope("p", map[string]string{"k": "v"})
			var sc tally.Scope = ts
			if derived {
				sc = ts.SubScope("s").Tagged(map[string]string{"a": "b"})
			}
			tm := sc.Timer("t")
			for i := 0; i < n; i++ {
				tm.Record(time.Duration(i))
			}
			line := fmt.Sprintf("test scope, derived=%v: %d records (0, 1, 2, ... ns) on one timer, snapshot", derived, n)
			var vals []time.Duration
			for _, t := range ts.Snapshot().Timers() {
				vals = t.Values()
			}
			bad := len(vals) != n
			for i := 0; !bad && i < n; i++ {
				bad = vals[i] != time.Duration(i)
			}
			if bad {
				first := time.Duration(-1)
				if len(vals) > 0 {
					first = vals[0]
				}
				c.Cov.Fail(Failure{Kind: "violated", Clause: "snapshot-timer-values", Signature: "c11big-timer-values-missing", Line: line,
					Reply: fmt.Sprintf("the snapshot holds %d values, the first is %d ns", len(vals), first)})
			}
			c.Cov.Eval(line, true)
		}
	}
	type mk func(ts tally.TestScope) tally.Scope
	own := map[string]string{"k": "v"}
	routes := []struct {
		name string
		f    mk
	}{
		{"Tagged(nil)", func(ts tally.TestScope) tally.Scope { return ts.Tagged(nil) }},
		{"Tagged({})", func(ts tally.TestScope) tally.Scope { return ts.Tagged(map[string]string{}) }},
		{"Tagged(own tags)", func(ts tally.TestScope) tally.Scope { return ts.Tagged(map[string]string{"k": "v"}) }},
		{"SubScope(\"\")", func(ts tally.TestScope) tally.Scope { return ts.SubScope("") }},
		{"SubScope(s)", func(ts tally.TestScope) tally.Scope { return ts.SubScope("s") }},
		{"Tagged({a: b})", func(ts tally.TestScope) tally.Scope { return ts.Tagged(map[string]string{"a": "b"}) }},
		{"SubScope(s).Tagged(nil)", func(ts tally.TestScope) tally.Scope { return ts.SubScope("s").Tagged(nil) }},
	}
	for _, cfg := range []struct {
		prefix string
		tags   map[string]string
	}{{"", nil}, {"p", own}, {"", own}} {
		for _, rt := range routes {
			ts := tally.NewTestScope(cfg.prefix, cfg.tags)
			for i, sc := range []tally.Scope{ts, ts.SubScope("s"), ts.Tagged(map[string]string{"a": "b"})} {
				sc.Counter("c").Inc(int64(i + 1))
				sc.Gauge("g").Update(float64(i) + 0.5)
				sc.Timer("t").Record(time.Duration(i+1) * time.Millisecond)
				sc.Histogram("h", tally.ValueBuckets{1, 2}).RecordValue(float64(i))
				sc.Histogram("hd", tally.DurationBuckets{time.Second}).RecordDuration(time.Duration(i) * time.Second)
			}
			before := c11SnapLines(ts.Snapshot())
			line := fmt.Sprintf("test scope prefix=%q tags=%v with counters, gauges, timers and histograms on the root, SubScope(s) and Tagged({a: b}); the handle %s is closed; snapshot", cfg.prefix, cfg.tags, rt.name)
			h := rt.f(ts)
			closed := false
			if cl, ok := h.(io.Closer); ok {
				if p, v := catch(func() { cl.Close() }); p {
					c.Cov.Fail(Failure{Kind: "crash", Clause: "no-panic", Signature: "c11big-close-panics", Line: line, Reply: fmt.Sprint(v)})
					continue
				}
				closed = true
			}
			after := c11SnapLines(ts.Snapshot())
			if fmt.Sprint(before) != fmt.Sprint(after) {
				c.Cov.Fail(Failure{Kind: "violated", Clause: "test-scope-survives-close", Signature: "c11big-metrics-gone-after-close", Line: line,
					Reply: fmt.Sprintf("snapshot before the Close: %d entries %.300v ; after: %d entries %.300v", len(before), before, len(after), after)})
			}
			c.Cov.Hit(fmt.Sprintf("close-route.%s.closable=%v", rt.name, closed))
			c.Cov.Eval(line, true)
		}
	}
	c.Cov.Traces = c.Cov.Evaluations
}
