package main

import (
	"fmt"
	"io"
	"strconv"
	"strings"
	"sync"
	"time"

	tally "github.com/uber-go/tally/v4"
	"github.com/uber-go/tally/v4/m3"
)

func init() {
	register("c09", "C09", "c09", suiteC09)
	register("allocfault", "C09", "", suiteAllocFault)
	register("allocpanic", "C09", "", suiteAllocPanic)
}

// allocpanic: the reporter's Allocate call PANICS once and the application recovers - run by C09's check only, whose
// statement is unconditional about it ("all of the scope API, recording and reporting may be used concurrently without
// data races, panics or deadlock"; the library's own Prometheus reporter panics there by default).  The other
// properties quantify over schedules, histories and inputs, not over failing reporters: their checks do not run it.
func suiteAllocPanic(c *Ctx) {
	c.Cov.Rule = "a cached reporter whose Allocate call panics once for one name (the Prometheus reporter does that on a registration conflict unless told otherwise), the application recovers; for each metric kind, on the root and on a subscope: a later first use of another name, recording, a report pass and the root's Close must complete within 8 s (watchdog: no lock may be left behind), and what was recorded on the second name must be delivered; every case nontrivial"
	for _, kind := range []string{"counter", "gauge", "timer", "histogram"} {
		for _, onSub := range []bool{false, true} {
			c09AllocFault(c, kind, onSub)
		}
	}
	c.Cov.Traces = c.Cov.Evaluations
}

// allocfault: a SLOW Allocate call (a schedule: the thread is parked inside the reporter), run by the checks of C01,
// C02, C03, C08, C09 and C10
func suiteAllocFault(c *Ctx) {
	c.Cov.Rule = "a SLOW allocation: per kind (histogram, counter, gauge) a first use of a new name parked inside the reporter's Allocate call (under that kind's lock of the scope) while the scope's final report runs (collection of the closed scope, or the root's Close): what was recorded on an already registered metric of that kind of that scope must be delivered; and, per kind, a second thread asking for the name whose first use is parked inside Allocate, plus a pass: nothing half-built is handed out or reported (no panic, one Allocate, the second thread's recording delivered); every case nontrivial"
	for _, kind := range []string{"histogram", "counter", "gauge"} {
		c09SlowAlloc(c, false, kind)
		c09SlowAlloc(c, true, kind)
	}
	for _, kind := range []string{"counter", "gauge", "timer", "histogram"} {
		c09SlowFirstUse(c, kind)
	}
	c.Cov.Traces = c.Cov.Evaluations
}

var c09Sanitize bool

// one lock-step execution: n threads ask one scope for the same metric of one kind
func runC09(c *Ctx, ch Chooser, kind string, cached bool, nThreads int, onSub bool, reps int) (trace []string) {
	// half of the sampled runs use a name the (M3 default) sanitizer changes: probe and re-check must agree on the key
	raw, clean := "m", "m"
	if c09Sanitize {
		o := m3.DefaultSanitizerOpts
		worldSanitize = &o
		defer func() { worldSanitize = nil }()
		raw, clean = "m 1", "m_1"
		trace = append(trace, "sanitized-name")
	}
	w := newWorld(cached, 0, 1, false)
	var sc tally.Scope = w.root
	prefix := ""
	if onSub {
		sc = w.root.SubScope("a")
		prefix = "a."
	}
	d := c.Drv
	failed := false
	say := func(line string) {
		trace = append(trace, line)
		if failed {
			return
		}
		rep := d.Ask(line)
		if rep == "ok" || strings.HasPrefix(rep, "ok ") {
			return
		}
		k := "differ"
		if strings.HasPrefix(rep, "violated") {
			k = "violated"
		} else if strings.HasPrefix(rep, "bad-op") {
			k = "bad-op"
		}
		f := strings.Fields(rep)
		c.Cov.Fail(Failure{Kind: k, Clause: strings.Join(f[:min(2, len(f))], " "), Signature: "c09-" + kind, Line: strings.Join(trace, " | "), Reply: rep})
		failed = true
	}
	say("begin")
	label := "scope." + kind + ".pre-lock"
	s := NewSched(func(l string) bool { return l == label || l == "c09.call" })
	results := make([][]interface{}, nThreads)
	var thrs []*Thr
	for i := 0; i < nThreads; i++ {
		i := i
		thrs = append(thrs, s.Spawn("T"+strconv.Itoa(i), func() {
			for k := 0; k < reps; k++ {
				if k > 0 {
					hook("c09.call", "")
				}
				var m interface{}
				switch kind {
				case "counter":
					ctr := sc.Counter(raw)
					ctr.Inc(1)
					m = ctr
				case "gauge":
					m = sc.Gauge(raw)
				case "timer":
					m = sc.Timer(raw)
				case "histogram":
					m = sc.Histogram(raw, tally.ValueBuckets{1, 2})
				}
				results[i] = append(results[i], m)
			}
		}))
	}
	live := nThreads
	for live > 0 && !failed {
		var cand []int
		for i, t := range thrs {
			if !t.Done {
				cand = append(cand, i)
			}
		}
		i := cand[ch.Pick(len(cand))]
		t := thrs[i]
		from := t.At
		to, _ := s.Step(t)
		if to == "blocked" || to == "panic" {
			c.Cov.Fail(Failure{Kind: "crash", Clause: to, Signature: "c09-" + kind, Line: strings.Join(trace, " | "), Reply: fmt.Sprint(t.Pan)})
			failed = true
			break
		}
		// translate
		switch from {
		case "start", "c09.call":
			say(fmt.Sprintf("ev probe %d", i))
			if to == label {
				say(fmt.Sprintf("expect %d missed", i))
			} else {
				say(fmt.Sprintf("expect %d returned", i))
				say(fmt.Sprintf("ev finish %d", i))
			}
		default: // parked before the write lock
			say(fmt.Sprintf("ev create %d", i))
			say(fmt.Sprintf("expect %d returned", i))
			say(fmt.Sprintf("ev finish %d", i))
		}
		if to == "done" {
			live--
		}
	}
	s.Finish()
	// observations
	classes := map[interface{}]int{}
	var res []string
	recorded := int64(0)
	for _, rs := range results {
		for _, m := range rs {
			if _, ok := classes[m]; !ok {
				classes[m] = len(classes)
			}
			res = append(res, strconv.Itoa(classes[m]))
			if kind == "counter" {
				recorded++
			}
		}
	}
	allocs := 0
	if cached {
		for _, e := range w.recC.log.Snapshot() {
			if strings.HasPrefix(e.Kind, "alloc-") && e.Name == prefix+clean {
				allocs++
			}
		}
	}
	tally.VerifReportOnce(w.root)
	got, _ := w.delivered()
	say(fmt.Sprintf("holds? %s %d %d %d", joinList(res), allocs, recorded, got[prefix+clean]))
	d.Ask("end")
	w.closer.Close()
	return
}

func suiteC09(c *Ctx) {
	c.Cov.Rule = "lock-step: 2-4 threads ask one live scope (root or subscope) for the same counter/gauge/timer/histogram, each thread parked between the read-locked probe and the write lock (and between repeated calls); plain and cached reporter; each step validated against Model.GetOrCreate; oracle Spec.C09.holds on returned object identities, Allocate calls and delivered increments; nontrivial = at least two threads missed before any created; distinct by trace. Exhaustive enumeration for 2 and 3 threads; free-running stress of mixed first use + recording + report passes"
	kinds := []string{"counter", "gauge", "timer", "histogram"}
	n := c.N(200, 2000)
	for i := 0; i < n; i++ {
		r := c.Rng.Fork()
		c09Sanitize = r.Bool()
		tr := runC09(c, &randChooser{r: r}, kinds[i%4], r.Bool(), r.Range(2, 4), r.Bool(), r.Range(1, 2))
		key := strings.Join(tr, " | ")
		c.Cov.Eval(key, strings.Count(key, "missed") >= 2)
		c.Cov.Schedules++
		c.Cov.Traces++
	}
	c09Sanitize = false
	for _, nt := range []int{2, 3} {
		if nt == 3 && !c.Thorough() {
			continue
		}
		for _, kind := range []string{"counter", "histogram"} {
			ch := &dfsChooser{}
			cnt := 0
			for {
				tr := runC09(c, ch, kind, true, nt, false, 1)
				cnt++
				c.Cov.Eval(strings.Join(tr, " | "), true)
				c.Cov.Schedules++
				c.Cov.Traces++
				if !ch.Next() || cnt > 50000 {
					break
				}
			}
			c.Cov.HitN(fmt.Sprintf("exhaustive.%s.%dthreads.schedules", kind, nt), cnt)
		}
	}
	// free-running: first use of overlapping names from many goroutines while others record and a pass runs
	stress := c.N(20, 300)
	for i := 0; i < stress; i++ {
		r := c.Rng.Fork()
		w := newWorld(r.Bool(), 0, uint(r.Range(1, 8)), false)
		var wg sync.WaitGroup
		var mu sync.Mutex
		ptrs := map[string]map[interface{}]bool{}
		hsamples := map[string]int64{} // duration samples recorded per histogram (all goroutines hit the same buckets at once)
		stop := make(chan struct{})
		passesDone := make(chan struct{})
		go func() {
			defer close(passesDone)
			for {
				select {
				case <-stop:
					return
				default:
					tally.VerifReportOnce(w.root)
					time.Sleep(50 * time.Microsecond)
				}
			}
		}()
		for g := 0; g < 8; g++ {
			wg.Add(1)
			go func(g int) {
				defer wg.Done()
				for k := 0; k < 40; k++ {
					sub := fmt.Sprintf("s%d", k%5)
					name := fmt.Sprintf("m%d", k%3)
					sc := w.root.SubScope(sub)
					ctr := sc.Counter(name)
					w.inc(ctr, sub+"."+name, 1)
					sc.Gauge(name).Update(float64(k))
					sc.Timer(name)
					sc.Histogram(name, nil).RecordDuration(time.Millisecond)
					mu.Lock()
					hsamples[sub+"."+name]++
					key := sub + "." + name
					if ptrs[key] == nil {
						ptrs[key] = map[interface{}]bool{}
					}
					ptrs[key][ctr] = true
					mu.Unlock()
				}
			}(g)
		}
		wg.Wait()
		close(stop)
		// the background pass may be between taking a counter's delta and handing it to the reporter: wait for the
		// goroutine itself, not for a while (a fixed 200us pause here once read the log too early on a loaded machine)
		<-passesDone
		tally.VerifReportOnce(w.root)
		w.trace = []string{"stress"}
		w.checkConservation(c, "C09", "c09-stress")
		// ... and "everything recorded through any of the returned handles is delivered" for the histograms: the bucket
		// counts delivered add up to the samples recorded (8 goroutines record the FIRST samples of one bucket at once)
		hgot := map[string]int64{}
		for _, e := range w.log().Snapshot() {
			switch e.Kind {
			case "hdur", "hval":
				hgot[e.Name] += e.I
			case "samples":
				hgot[w.recC.Meta[e.ID].Name] += e.I
			}
		}
		for key, n := range hsamples {
			if hgot[key] != n {
				c.Cov.Fail(Failure{Kind: "violated", Clause: "recorded-through-any-handle-delivered", Signature: "c09-stress-histogram-samples", Line: key,
					Reply: fmt.Sprintf("histogram %s: %d duration samples recorded by 8 goroutines, %d delivered", key, n, hgot[key])})
				break
			}
		}
		for key, m := range ptrs {
			if len(m) != 1 {
				c.Cov.Fail(Failure{Kind: "violated", Clause: "all-callers-same-object", Signature: "c09-stress", Line: key, Reply: fmt.Sprintf("%d distinct counter objects", len(m))})
			}
		}
		if w.cached {
			seen := map[string]int{}
			for _, e := range w.recC.log.Snapshot() {
				if strings.HasPrefix(e.Kind, "alloc-") {
					seen[e.Kind+e.Name]++
				}
			}
			for k, v := range seen {
				if v > 1 {
					c.Cov.Fail(Failure{Kind: "violated", Clause: "allocate-at-most-once", Signature: "c09-stress", Line: k, Reply: fmt.Sprintf("%d Allocate calls", v)})
				}
			}
		}
		c.Cov.Eval(fmt.Sprintf("stress %d", r.U64()), true)
		w.closer.Close()
	}
}

// c09AllocFault: a fault at one point -- the cached reporter's Allocate call of a first use panics (the Prometheus
// reporter does that on a registration conflict unless told otherwise) and the application recovers.  The scope must
// stay usable: a later first use of the same kind on the same scope, recording, a report pass and the root's Close
// complete ("... may be used concurrently without ... deadlock": a lock still held by the failed registration would
// block every one of them).  A watchdog judges; a blocked goroutine is left behind.
func c09AllocFault(c *Ctx, kind string, onSub bool) {
	rc := newRecCached()
	rc.log.Pre = func(e *Ev) {
		if strings.HasPrefix(e.Kind, "alloc") && strings.HasSuffix(e.Name, "boom") {
			panic("c09: allocation refused by the reporter")
		}
	}
	root, closer := tally.VerifNewRootScope(tally.ScopeOptions{CachedReporter: rc, OmitCardinalityMetrics: true}, 0, 1)
	sc := root
	if onSub {
		sc = root.SubScope("s")
	}
	use := func(name string) {
		switch kind {
		case "counter":
			sc.Counter(name).Inc(1)
		case "gauge":
			sc.Gauge(name).Update(1)
		case "timer":
			sc.Timer(name).Record(time.Millisecond)
		default:
			sc.Histogram(name, tally.ValueBuckets{1, 2}).RecordValue(1.5)
		}
	}
	line := fmt.Sprintf("cached reporter whose Allocate panics for the name boom; %s first use on %s, recovered; then a first use of another name, a report pass, Close", kind, map[bool]string{false: "the root", true: "a subscope"}[onSub])
	if p, _ := catch(func() { use("boom") }); !p {
		// the library swallowed the reporter's panic and handed out a metric all the same: whatever it is, recording on
		// it (done by use) and reporting it must not crash
		if pp, pv := catch(func() { tally.VerifReportOnce(root) }); pp {
			c.Cov.Fail(Failure{Kind: "crash", Clause: "no-panic", Signature: "c09-half-built-metric-after-refused-allocation", Line: line,
				Reply: fmt.Sprintf("the reporter's Allocate panicked, the first use returned normally, and the next report pass panicked: %v", pv)})
			return
		}
	}
	done := make(chan interface{}, 1)
	go func() {
		_, v := catch(func() {
			use("ok")
			tally.VerifReportOnce(root)
			closer.Close()
		})
		done <- v
	}()
	select {
	case v := <-done:
		if v == nil {
			// what was recorded on the second name after the fault is delivered
			n := 0
			for _, e := range rc.log.Snapshot() {
				if (e.Kind == "counter" || e.Kind == "gauge" || e.Kind == "timer" || e.Kind == "samples") && strings.HasSuffix(rc.Meta[e.ID].Name, "ok") {
					n++
				}
			}
			if n == 0 {
				c.Cov.Fail(Failure{Kind: "violated", Clause: "recorded-is-delivered", Signature: "c09-nothing-delivered-after-recovered-allocation-panic", Line: line,
					Reply: "the value recorded on the second name was not delivered by the pass or by Close"})
				return
			}
		}
		if v != nil {
			c.Cov.Fail(Failure{Kind: "crash", Clause: "no-panic", Signature: "c09-panic-after-recovered-allocation-panic", Line: line, Reply: fmt.Sprint(v)})
			return
		}
	case <-time.After(8 * time.Second): // generous: a starved machine must not look like a deadlock
		c.Cov.Fail(Failure{Kind: "crash", Clause: "no-deadlock", Signature: "c09-lock-held-after-allocation-panic", Line: line,
			Reply: "the scope is stuck 8 s after the recovered panic: a lock taken by the failed registration is still held"})
		return
	}
	c.Cov.Hit("alloc-fault." + kind)
	c.Cov.Eval(line, true)
}

// c09SlowAlloc: a first use is in flight -- the cached reporter's AllocateHistogram for a NEW name is slow (the thread is
// parked inside it, under the scope's histogram lock) -- while the scope's FINAL report runs: the scope was closed and a
// pass collects it, or the root is being closed.  What had been recorded on an already registered histogram of that
// scope must still be delivered ("everything recorded through any of the returned handles is delivered"): the pass has
// to wait for the registration, it may not skip the scope's histograms and then clear them.
func c09SlowAlloc(c *Ctx, viaRootClose bool, kind string) {
	rc := newRecCached()
	rc.log.Pre = func(e *Ev) {
		if strings.HasPrefix(e.Kind, "alloc") && strings.HasSuffix(e.Name, "slow") {
			hook("rep.alloc-slow", "")
		}
	}
	root, closer := tally.VerifNewRootScope(tally.ScopeOptions{CachedReporter: rc, OmitCardinalityMetrics: true}, 0, 1)
	sc := root.SubScope("s")
	// two recordings on an already registered metric of the same kind (same per-kind lock as the slow first use)
	switch kind {
	case "counter":
		sc.Counter("h1").Inc(1)
		sc.Counter("h1").Inc(1)
	case "gauge":
		sc.Gauge("h1").Update(2)
	default:
		h1 := sc.Histogram("h1", tally.ValueBuckets{1, 2})
		h1.RecordValue(1.5)
		h1.RecordValue(1.5)
	}
	s := NewSched(nil)
	s.ParkOnT = func(th, l string) bool { return th == "A" && l == "rep.alloc-slow" }
	s.Timeout = 300 * time.Millisecond
	A := s.Spawn("A", func() {
		switch kind {
		case "counter":
			sc.Counter("slow")
		case "gauge":
			sc.Gauge("slow")
		default:
			sc.Histogram("slow", tally.ValueBuckets{5})
		}
	})
	l0 := runUntil(s, A, func(l, _ string) bool { return l == "rep.alloc-slow" })
	var trace []string
	trace = append(trace, "recorded 2 on s.h1 ("+kind+"); A: first use of s.slow parked inside the reporter's Allocate ("+l0+")")
	var P *Thr
	if viaRootClose {
		P = s.Spawn("P", func() { closer.Close() })
		trace = append(trace, "P: root Close")
	} else {
		sc.(io.Closer).Close()
		P = s.Spawn("P", func() { tally.VerifReportOnce(root) })
		trace = append(trace, "s closed; P: report pass (collects s)")
	}
	l1 := runUntil(s, P, never)
	trace = append(trace, "P "+l1)
	l2 := runUntil(s, A, never)
	trace = append(trace, "A "+l2)
	if !P.Done {
		l3, _ := s.Step(P)
		trace = append(trace, "P "+l3)
	}
	s.Finish()
	if !viaRootClose {
		tally.VerifReportOnce(root)
		closer.Close()
	}
	n := int64(0)
	for _, e := range rc.log.Snapshot() {
		if !strings.HasSuffix(rc.Meta[e.ID].Name, "h1") {
			continue
		}
		switch e.Kind {
		case "samples", "counter":
			n += e.I
		case "gauge":
			n += int64(e.F)
		}
	}
	line := strings.Join(trace, " | ")
	if n != 2 {
		c.Cov.Fail(Failure{Kind: "violated", Clause: "recorded-is-delivered", Signature: "c09-final-report-during-slow-first-use", Line: line,
			Reply: fmt.Sprintf("2 had been recorded on s.h1 (%s) before the final report of s; %d delivered", kind, n)})
	}
	c.Cov.Hit(fmt.Sprintf("slow-alloc.%s.root-close=%v", kind, viaRootClose))
	c.Cov.Eval(line, true)
	c.Cov.Schedules++
}

// c09SlowFirstUse: thread A's first use of a name is parked INSIDE the cached reporter's Allocate call (the object is
// being built); thread B then asks for the same name and records through what it gets; a report pass runs.  Nothing
// may be handed out or reported half-built: B and the pass either wait for A or see nothing of the name yet.  Afterwards:
// no panic anywhere, one Allocate for the name, and what B recorded is delivered.
func c09SlowFirstUse(c *Ctx, kind string) {
	rc := newRecCached()
	rc.log.Pre = func(e *Ev) {
		if strings.HasPrefix(e.Kind, "alloc") && strings.HasSuffix(e.Name, "slow") {
			hook("rep.alloc-slow", "")
		}
	}
	root, closer := tally.VerifNewRootScope(tally.ScopeOptions{CachedReporter: rc, OmitCardinalityMetrics: true}, 0, 1)
	sc := root.SubScope("s")
	use := func(record bool) {
		switch kind {
		case "counter":
			m := sc.Counter("slow")
			if record {
				m.Inc(7)
			}
		case "gauge":
			m := sc.Gauge("slow")
			if record {
				m.Update(7)
			}
		case "timer":
			m := sc.Timer("slow")
			if record {
				m.Record(7)
			}
		default:
			m := sc.Histogram("slow", tally.ValueBuckets{1, 2})
			if record {
				m.RecordValue(1.5)
			}
		}
	}
	s := NewSched(nil)
	s.ParkOnT = func(th, l string) bool { return th == "A" && l == "rep.alloc-slow" }
	s.Timeout = 150 * time.Millisecond
	var pans [3]interface{}
	A := s.Spawn("A", func() { _, pans[0] = catch(func() { use(false) }) })
	l0 := runUntil(s, A, func(l, _ string) bool { return l == "rep.alloc-slow" })
	trace := []string{"A: first use of s.slow (" + kind + ") parked inside Allocate (" + l0 + ")"}
	B := s.Spawn("B", func() { _, pans[1] = catch(func() { use(true) }) })
	l1 := runUntil(s, B, never)
	trace = append(trace, "B: same name, records: "+l1)
	P := s.Spawn("P", func() { _, pans[2] = catch(func() { tally.VerifReportOnce(root) }) })
	l2 := runUntil(s, P, never)
	trace = append(trace, "P: report pass: "+l2)
	trace = append(trace, "A "+runUntil(s, A, never))
	for _, t := range []*Thr{B, P} {
		if !t.Done {
			l, _ := s.Step(t)
			trace = append(trace, t.Name+" "+l)
		}
	}
	s.Finish()
	line := strings.Join(trace, " | ")
	for i, v := range pans {
		if v != nil {
			c.Cov.Fail(Failure{Kind: "crash", Clause: "no-panic", Signature: "c09-half-built-metric-" + kind, Line: line,
				Reply: fmt.Sprintf("thread %s panicked: %v", []string{"A", "B", "P"}[i], v)})
			return // locks may be left behind: the root is abandoned
		}
	}
	tally.VerifReportOnce(root)
	closer.Close()
	allocs, delivered := 0, int64(0)
	for _, e := range rc.log.Snapshot() {
		if strings.HasPrefix(e.Kind, "alloc") && strings.HasSuffix(e.Name, "slow") {
			allocs++
		}
		if (e.Kind == "counter" || e.Kind == "gauge" || e.Kind == "timer" || e.Kind == "samples") && strings.HasSuffix(rc.Meta[e.ID].Name, "slow") {
			delivered++
		}
	}
	if allocs != 1 {
		c.Cov.Fail(Failure{Kind: "violated", Clause: "allocate-at-most-once", Signature: "c09-half-built-metric-" + kind, Line: line, Reply: fmt.Sprintf("%d Allocate calls for s.slow", allocs)})
	} else if delivered == 0 {
		c.Cov.Fail(Failure{Kind: "violated", Clause: "recorded-is-delivered", Signature: "c09-half-built-metric-" + kind, Line: line, Reply: "what B recorded on s.slow was never delivered"})
	}
	c.Cov.Hit("slow-first-use." + kind)
	c.Cov.Eval(line, true)
	c.Cov.Schedules++
}
