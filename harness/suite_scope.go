package main

import (
	"fmt"
	"io"
	"math"
	"runtime"
	"sort"
	"strconv"
	"strings"
	"time"
	"unsafe"

	tally "github.com/uber-go/tally/v4"
	"github.com/uber-go/tally/v4/m3"
	"github.com/uber-go/tally/v4/prometheus"
)

// Sequential scope-tree suites: random derivation programs / record histories against Model.Scope.
// Line formats (driver: lean/Tally/Drv/Scope.lean):
//   root <plain|cached|none> <closable> <shards> <san|-> <prefix> <sep> <tags> <defaultBuckets|->
//   sub <parent> <name> => <id|noop> <events>          tag <parent> <map> => <id|noop> <events>
//   counter|gauge|timer <scope> <name> => <mid> <events>     hist <scope> <name> <nil|d..|v..> => <mid> <events>
//   inc|upd|rec|recv|recd <mid> <v> => <events>     report => <events>     close <scope> => <events>     snap => <entries>
//   key <prefix> <map/map/...> => <key>

func init() {
	register("scope-c04", "C04", "scope", func(c *Ctx) { suiteScope(c, "c04") })
	register("scope-c05", "C05", "scope", func(c *Ctx) { suiteScope(c, "c05") })
	register("scope-c10", "C10", "scope", func(c *Ctx) { suiteScope(c, "c10") })
	register("scope-c11", "C11", "scope", func(c *Ctx) { suiteScope(c, "c11") })
	register("scope-c07seq", "C07", "scope", func(c *Ctx) { suiteScope(c, "c07") })
}

var scopeStrPool = []string{"a", "b", "c", "ab", "svc", "x.y", "", "a+b", "k=v", "a,b", "a\\b", "+", ",", "=", "1,b=2", "é", "世界", "a\xffb", "a\xfeb", "a\ufffdb", "\xc0", "\xc1", "\ufffd", "\xe4\xb8", "A_B-c", "foo bar", "a:b", "p/q", "\x00"}

var aliasMode bool
var aliasPool = []string{"k 1", "k+1", "k_1", "k,1"}

// rawTime mirrors the layout of time.Time (wall, ext, loc: unchanged since Go 1.9); used only to emulate what
// time.Now() returns after the wall clock was stepped: same monotonic reading, different wall reading.
type rawTime struct {
	wall uint64
	ext  int64
	loc  *time.Location
}

// wallStepClock returns two instants as time.Now() would produce them d apart on the monotonic clock with the wall
// clock stepped in between (so that the wall readings are NOT d apart).  ok is false when d is out of the range
// where that can be emulated, in 60% of the calls (the scripted wall-only clock stays the common case), or when
// the emulation does not pass its own sanity check (layout of time.Time not as expected).
func wallStepClock(r *Rng, d int64) ([2]time.Time, bool) {
	if !r.Chance(40) {
		return [2]time.Time{}, false
	}
	return wallStepInstants(r, d)
}

func wallStepInstants(r *Rng, d int64) ([2]time.Time, bool) {
	var out [2]time.Time
	if d < -1e12 || d > 1e12 {
		return out, false
	}
	step := []int64{-3600, 3600, -86400 * 365, 7, -1}[r.Intn(5)]
	start := time.Now()
	stop := start.Add(time.Duration(d))
	if unsafe.Sizeof(stop) != unsafe.Sizeof(rawTime{}) {
		return out, false
	}
	raw := (*rawTime)(unsafe.Pointer(&stop))
	if raw.wall>>63 != 1 {
		return out, false
	}
	sec := int64(raw.wall<<1>>31) + step
	if sec < 0 || sec >= 1<<33 {
		return out, false
	}
	raw.wall = 1<<63 | uint64(sec)<<30 | (raw.wall & (1<<30 - 1))
	if stop.Sub(start) != time.Duration(d) || stop.Round(0).Sub(start.Round(0)) != time.Duration(d)+time.Duration(step)*time.Second {
		return out, false
	}
	out[0], out[1] = start, stop
	return out, true
}

func genScopeStr(r *Rng, nonEmpty bool) string {
	if aliasMode && r.Chance(75) {
		return aliasPool[r.Intn(len(aliasPool))]
	}
	for {
		var s string
		switch r.Intn(10) {
		case 0:
			s = scopeStrPool[r.Intn(len(scopeStrPool))] + scopeStrPool[r.Intn(len(scopeStrPool))]
		case 1, 2:
			s = string(rune('a' + r.Intn(4)))
		default:
			s = scopeStrPool[r.Intn(len(scopeStrPool))]
		}
		if !nonEmpty || s != "" {
			return s
		}
	}
}

type sanGen struct {
	opts *tally.SanitizeOptions
	tok  string
}

func vcTok(vc tally.ValidCharacters) string {
	rs := make([]string, len(vc.Ranges))
	for i, x := range vc.Ranges {
		rs[i] = fmt.Sprintf("%d:%d", x[0], x[1])
	}
	cs := make([]string, len(vc.Characters))
	for i, x := range vc.Characters {
		cs[i] = strconv.Itoa(int(x))
	}
	return joinList(rs) + "/" + joinList(cs)
}

func genSan(r *Rng) sanGen {
	var o tally.SanitizeOptions
	switch r.Intn(6) {
	case 0, 1, 2:
		return sanGen{nil, "-"}
	case 3:
		o = m3.DefaultSanitizerOpts
	case 4:
		o = prometheus.DefaultSanitizerOpts
	default:
		o = tally.SanitizeOptions{NameCharacters: genValidChars(r).vc, KeyCharacters: genValidChars(r).vc, ValueCharacters: genValidChars(r).vc, ReplacementCharacter: genRep(r)}
	}
	if r.Chance(30) {
		// the application keeps ONE options variable and refills it from root to root (a loop over per-backend settings
		// taking the address of its loop variable does that): every root must be sanitized by what the variable held when
		// the root was created
		sharedSanOpts = o
		return sanGen{&sharedSanOpts, vcTok(o.NameCharacters) + "/" + vcTok(o.KeyCharacters) + "/" + vcTok(o.ValueCharacters) + "/" + strconv.Itoa(int(o.ReplacementCharacter))}
	}
	return sanGen{&o, vcTok(o.NameCharacters) + "/" + vcTok(o.KeyCharacters) + "/" + vcTok(o.ValueCharacters) + "/" + strconv.Itoa(int(o.ReplacementCharacter))}
}

var sharedSanOpts tally.SanitizeOptions

type scopeRun struct {
	wide     bool // tag maps of 9-14 entries over 24 labels (merged maps beyond any small-input fast path)
	c        *Ctx
	r        *Rng
	kind     string
	san      tally.Sanitizer
	rec      *recReporter
	recC     *recCached
	root     tally.Scope
	closer   io.Closer
	scopes   []tally.Scope       // by observed id
	scopeID  map[tally.Scope]int // pointer identity
	closed   map[int]bool
	metrics  []interface{} // by observed id
	metricID map[interface{}]int
	mkind    []string
	histB    map[int][][2]string // cached hist handle id -> per bucket lo|hi tokens
	histKind map[int]string
	lines    []string
	failed   bool
	sigBase  string
	depth    map[int]int
	retagged bool
	sepS     string
	how      map[int]scopeHow
	// conservation oracle (C01 clause, independent of the model): per counter identity name|tags
	consLive  map[string]int64  // sum of increments made while the metric's scope (and the root) was live
	consFuzzy map[string]bool   // an increment was made through a handle of a closed scope: need not be delivered
	consGot   map[string]int64  // sum of deltas the reporter received
	gLast     map[string]string // gauge identity -> bits of the last value set while its scope (and the root) was live
	gFuzzy    map[string]bool   // a value was set through a handle of a closed scope: need not be delivered
	gGot      map[string]string // gauge identity -> bits of the last value the reporter received
	noSan     bool              // no sanitizer configured: one object per identity is promised outright
	mScope    map[int]int       // metric id -> scope id it was obtained from
	mNT       map[int]string    // metric id -> name|tags token as the reporter will see it
	rootDead  bool
	// histogram bounds oracle (C03/C11/C20 clause, independent of the model): every bucket a histogram
	// delivers or shows in a snapshot is a bucket of the specification it was created with
	histPairs   map[string]map[string]bool // name|tags -> allowed "lo|hi" tokens ("any" when the scope default applies)
	histUps     map[string]map[string]bool // name|tags -> allowed upper-bound tokens
	histViol    string
	sanViol     string
	indepViol   string
	keyViol     string
	missViol    string
	objNT       map[int]string // timers and histograms: metric id -> name|tags it was first handed out for
	hKind       map[int]byte   // histogram metric id -> 'v' / 'd' as the library decided when it created the histogram
	hNT         map[int]string
	hScope      map[int]int
	hLive       map[string]int64 // samples of the histogram's own kind recorded while its scope (and the root) was live
	hGot        map[string]int64 // sum of the per-bucket sample counts delivered
	hFuzzy      map[string]bool
	defKind     byte
	rootRaw     map[string]string // the root's tags as the application spelled them
	sameObjViol string
	ctrNT       map[string]int // counters created through the program: name|tags token -> scope id
}

type scopeHow struct {
	parent int
	name   *string
	tags   map[string]string
}

func (sr *scopeRun) log() *Log {
	if sr.recC != nil {
		return sr.recC.log
	}
	if sr.rec != nil {
		return sr.rec.log
	}
	return nil
}

// events since the last call, rendered and sorted
func (sr *scopeRun) events() string {
	l := sr.log()
	if l == nil {
		return "-"
	}
	var out []string
	for _, e := range l.Take() {
		name, tags := e.Name, e.Tags
		if sr.recC != nil && e.Kind != "flush" && e.Kind != "close" && !strings.HasPrefix(e.Kind, "alloc") && !strings.HasPrefix(e.Kind, "bucket") {
			m := sr.recC.Meta[e.ID]
			name, tags = m.Name, m.Tags
		}
		nt := hxs(name) + "|" + mapHex(tags)
		if e.Kind != "flush" && e.Kind != "close" && !strings.HasPrefix(e.Kind, "bucket") {
			sr.checkSanitized(name, tags)
		}
		switch e.Kind {
		case "counter":
			out = append(out, fmt.Sprintf("c|%s|%d", nt, e.I))
			if sr.consGot != nil {
				sr.consGot[nt] += e.I
			}
		case "gauge":
			out = append(out, fmt.Sprintf("g|%s|%s", nt, f64hex(e.F)))
			if sr.gGot != nil {
				sr.gGot[nt] = f64hex(e.F)
			}
		case "timer":
			out = append(out, fmt.Sprintf("t|%s|%d", nt, e.I))
		case "hval":
			out = append(out, fmt.Sprintf("hv|%s|%s|%s|%d", nt, f64hex(e.LoF), f64hex(e.HiF), e.I))
			sr.checkPair(nt, "v"+f64hex(e.LoF)+"|"+f64hex(e.HiF))
			sr.hGot[nt] += e.I
		case "hdur":
			sr.hGot[nt] += e.I
			out = append(out, fmt.Sprintf("hd|%s|%d|%d|%d", nt, int64(e.LoD), int64(e.HiD), e.I))
			sr.checkPair(nt, fmt.Sprintf("d%d|%d", int64(e.LoD), int64(e.HiD)))
		case "samples":
			b := sr.histB[e.ID][e.Idx]
			out = append(out, fmt.Sprintf("%s|%s|%s|%s|%d", sr.histKind[e.ID], nt, b[0], b[1], e.I))
			sr.checkPair(nt, sr.histKind[e.ID][1:]+b[0]+"|"+b[1])
			sr.hGot[nt] += e.I
		case "bucket-v":
			sr.histB[e.ID] = append(sr.histB[e.ID], [2]string{f64hex(e.LoF), f64hex(e.HiF)})
			sr.histKind[e.ID] = "hv"
		case "bucket-d":
			sr.histB[e.ID] = append(sr.histB[e.ID], [2]string{strconv.FormatInt(int64(e.LoD), 10), strconv.FormatInt(int64(e.HiD), 10)})
			sr.histKind[e.ID] = "hd"
		case "alloc-counter":
			out = append(out, "acounter|"+nt)
		case "alloc-gauge":
			out = append(out, "agauge|"+nt)
		case "alloc-timer":
			out = append(out, "atimer|"+nt)
		case "alloc-hist":
			out = append(out, "ahist|"+nt)
		case "flush":
			out = append(out, "flush")
		case "close":
			out = append(out, "close")
		}
	}
	sort.Strings(out)
	return joinList(out)
}

func (sr *scopeRun) say(line, sig string) {
	sr.lines = append(sr.lines, line)
	if sr.failed {
		// model and implementation already disagreed: the model state is no longer comparable. The program
		// still runs to its end on the implementation so that the model-independent conservation oracle
		// can decide whether the disagreement is a concrete violation.
		return
	}
	if !sr.c.Cov.Check(sr.c.Drv, line, sr.sigBase+sig) {
		if !sr.failed {
			// attach the whole program to the first failure for replay
			n := len(sr.c.Cov.Failures)
			if n > 0 {
				sr.c.Cov.Failures[n-1].Detail = strings.Join(sr.lines, "\n")
			}
		}
		sr.failed = true
	}
}

func (sr *scopeRun) idOf(s tally.Scope) string {
	if s == tally.NoopScope {
		return "noop"
	}
	if id, ok := sr.scopeID[s]; ok {
		return strconv.Itoa(id)
	}
	id := len(sr.scopes)
	sr.scopes = append(sr.scopes, s)
	sr.scopeID[s] = id
	return strconv.Itoa(id)
}

// "Scopes derived from a closed scope are inert" (C07) / "scopes obtained afterwards are inert" (C08): judged
// without the model -- a derivation from a handle whose Close has returned, or after the root's, must hand out
// the inert scope
func (sr *scopeRun) checkInert(p int, s tally.Scope) {
	if !(sr.rootDead || sr.closed[0] || sr.closed[p]) || s == tally.NoopScope {
		return
	}
	sr.c.Cov.Fail(Failure{Kind: "violated", Clause: "derived-from-closed-is-inert", Signature: sr.sigBase + "live-scope-derived-from-closed",
		Line: strings.Join(sr.lines, " ; "), Reply: fmt.Sprintf("derivation from closed scope %d returned a live scope", p), Detail: strings.Join(sr.lines, "\n")})
}

func (sr *scopeRun) midOf(m interface{}, kind string) string {
	if id, ok := sr.metricID[m]; ok {
		return strconv.Itoa(id)
	}
	id := len(sr.metrics)
	sr.metrics = append(sr.metrics, m)
	sr.mkind = append(sr.mkind, kind)
	sr.metricID[m] = id
	return strconv.Itoa(id)
}

// shardFor computes the registry shard the raw subscope key hashes to (observed through the shims)
func (sr *scopeRun) shardFor(p int, subName *string, tags map[string]string) int {
	parent := sr.scopes[p]
	if parent == tally.NoopScope {
		return 0
	}
	pfx := tally.VerifScopePrefix(parent)
	if subName != nil {
		n := sr.san.Name(*subName)
		if pfx == "" {
			pfx = n
		} else {
			pfx = pfx + sr.sepS + n
		}
	}
	key := tally.VerifKeyForPrefixedStringMaps(pfx, tally.VerifScopeTags(parent), tags)
	return tally.VerifShardOf(sr.root, key)
}

// a tag map whose sanitized keys are pairwise distinct (otherwise Go's map order decides)
func (sr *scopeRun) genTags(maxN int) map[string]string {
	n := sr.r.Intn(maxN + 1)
	if sr.wide {
		n = 9 + sr.r.Intn(6)
	}
	m := map[string]string{}
	seen := map[string]bool{}
	for i := 0; i < n; i++ {
		k := genScopeStr(sr.r, false)
		if sr.wide {
			k = fmt.Sprintf("l%02d", sr.r.Intn(24))
		}
		sk := sr.san.Key(k)
		if seen[sk] {
			continue
		}
		seen[sk] = true
		m[k] = genScopeStr(sr.r, false)
	}
	return m
}

// checkSameObject: the library handed out, for (name, tags) = now, a metric object it had handed out before for
// (name, tags) = was.  One object for two different reported identities means that what is recorded through one of
// the handles is delivered under the other's name and tags ("every delivered value was recorded on that metric").
func (sr *scopeRun) checkSameObject(kind string, id int, was, now string) {
	if was == now || sr.sameObjViol != "" {
		return
	}
	sr.sameObjViol = fmt.Sprintf("%s object %d was handed out for %s and is handed out again for %s", kind, id, was, now)
}

// noteObject: the one-object-one-identity oracle for timers and histograms (counters and gauges: noteCounter / noteGauge)
func (sr *scopeRun) noteObject(kind string, m interface{}, p int, name string) {
	if sr.scopes[p] == tally.NoopScope {
		return
	}
	id, ok := sr.metricID[m]
	if !ok {
		return
	}
	full := sr.san.Name(name)
	if pfx := tally.VerifScopePrefix(sr.scopes[p]); pfx != "" {
		full = pfx + sr.sepS + full
	}
	nt := hxs(full) + "|" + mapHex(tally.VerifScopeTags(sr.scopes[p]))
	if sr.objNT == nil {
		sr.objNT = map[int]string{}
	}
	if old, seen := sr.objNT[id]; seen {
		sr.checkSameObject(kind, id, old, nt)
		return
	}
	sr.objNT[id] = nt
}

// noteCounter remembers, for the conservation oracle, which scope a counter came from and the name|tags
// token under which the reporter will see it (full name = scope prefix, separator, sanitized name)
func (sr *scopeRun) noteCounter(m tally.Counter, p int, name string) {
	if sr.scopes[p] == tally.NoopScope {
		return
	}
	id, _ := strconv.Atoi(sr.midOf(m, "counter"))
	full := sr.san.Name(name)
	if pfx := tally.VerifScopePrefix(sr.scopes[p]); pfx != "" {
		full = pfx + sr.sepS + full
	}
	if old, ok := sr.mNT[id]; ok {
		sr.checkSameObject("counter", id, old, hxs(full)+"|"+mapHex(tally.VerifScopeTags(sr.scopes[p])))
		return
	}
	sr.mScope[id] = p
	sr.mNT[id] = hxs(full) + "|" + mapHex(tally.VerifScopeTags(sr.scopes[p]))
	if sr.ctrNT == nil {
		sr.ctrNT = map[string]int{}
	}
	sr.ctrNT[sr.mNT[id]] = p
}

// noteGauge / noteUpd: the same bookkeeping for gauges ("the most recent delivery carries the latest value", C02,
// judged at the end of the program per name|tags, whichever handle the value was set through)
func (sr *scopeRun) noteGauge(m tally.Gauge, p int, name string) {
	if sr.scopes[p] == tally.NoopScope {
		return
	}
	id, _ := strconv.Atoi(sr.midOf(m, "gauge"))
	full := sr.san.Name(name)
	if pfx := tally.VerifScopePrefix(sr.scopes[p]); pfx != "" {
		full = pfx + sr.sepS + full
	}
	if old, ok := sr.mNT[id]; ok {
		sr.checkSameObject("gauge", id, old, hxs(full)+"|"+mapHex(tally.VerifScopeTags(sr.scopes[p])))
		return
	}
	sr.mScope[id] = p
	nt := hxs(full) + "|" + mapHex(tally.VerifScopeTags(sr.scopes[p]))
	sr.mNT[id] = nt
	// two gauge OBJECTS can share one reported identity without sharing a scope (gauge "a:b" on the root and gauge "b"
	// on SubScope("a") with separator ":"): which of them a pass visits last is map order, so "latest" is not defined
	for other, ont := range sr.mNT {
		if other != id && ont == nt {
			sr.gFuzzy[nt] = true
		}
	}
}

func (sr *scopeRun) noteUpd(mid int, v float64) {
	nt, ok := sr.mNT[mid]
	if !ok {
		return
	}
	if sr.rootDead || sr.closed[0] || sr.closed[sr.mScope[mid]] {
		sr.gFuzzy[nt] = true
		return
	}
	sr.gLast[nt] = f64hex(v)
}

func (sr *scopeRun) noteInc(mid int, v int64) {
	nt, ok := sr.mNT[mid]
	if !ok {
		return
	}
	// (scope 0 is the root: a derivation can return the root itself, e.g. Tagged(<the root's own tags>), and the
	// close / re-acquire stanza may then close it through that handle)
	if sr.rootDead || sr.closed[0] || sr.closed[sr.mScope[mid]] {
		if v != 0 {
			sr.consFuzzy[nt] = true
		}
		return
	}
	sr.consLive[nt] += v
}

// noteHistMetric / noteSample: C03's conservation clause in the programs, independent of the model - "the per-bucket
// sample counts delivered add up to the number of samples recorded ... and a value histogram ignores durations and
// vice versa".  The kind of a histogram is that of the specification it was CREATED with (nil: the scope's default
// buckets); asking for an existing name with another specification returns the existing histogram.
func (sr *scopeRun) noteHistMetric(m tally.Histogram, p int, name string, b tally.Buckets) {
	if sr.scopes[p] == tally.NoopScope {
		return
	}
	id, ok := sr.metricID[m]
	if !ok {
		return
	}
	if _, seen := sr.hKind[id]; seen {
		return
	}
	switch b.(type) {
	case tally.DurationBuckets:
		sr.hKind[id] = 'd'
	case tally.ValueBuckets:
		sr.hKind[id] = 'v'
	default:
		sr.hKind[id] = sr.defKind
	}
	full := sr.san.Name(name)
	if pfx := tally.VerifScopePrefix(sr.scopes[p]); pfx != "" {
		full = pfx + sr.sepS + full
	}
	sr.hNT[id] = hxs(full) + "|" + mapHex(tally.VerifScopeTags(sr.scopes[p]))
	sr.hScope[id] = p
}

func (sr *scopeRun) noteSample(mid int, kind byte) {
	k, ok := sr.hKind[mid]
	if !ok || k != kind {
		return // a sample of the other kind: ignored by the histogram
	}
	nt := sr.hNT[mid]
	if sr.rootDead || sr.closed[0] || sr.closed[sr.hScope[mid]] {
		sr.hFuzzy[nt] = true
		return
	}
	sr.hLive[nt]++
}

var collidingSpecs = []tally.Buckets{
	tally.DurationBuckets{1e6, 4e6}, tally.DurationBuckets{2e6, 3e6}, tally.DurationBuckets{3e6, 2e6},
	tally.ValueBuckets{1.25, 1.75}, tally.ValueBuckets{1.375, 1.625},
	// durations whose int64 values are the bit patterns of the value sets above, and the other way round
	tally.DurationBuckets{time.Duration(math.Float64bits(1.25)), time.Duration(math.Float64bits(1.75))},
	tally.ValueBuckets{math.Float64frombits(1e6), math.Float64frombits(4e6)},
}

// noteHist registers, for the bounds oracle, the buckets the specification `b` entitles the histogram
// `name` of scope p to (sorted copy, minimum / maximum sentinels); computed here, not by the library
func (sr *scopeRun) noteHist(p int, name string, b tally.Buckets) {
	if sr.scopes[p] == tally.NoopScope {
		return
	}
	full := sr.san.Name(name)
	if pfx := tally.VerifScopePrefix(sr.scopes[p]); pfx != "" {
		full = pfx + sr.sepS + full
	}
	nt := hxs(full) + "|" + mapHex(tally.VerifScopeTags(sr.scopes[p]))
	if sr.histPairs[nt] == nil {
		sr.histPairs[nt] = map[string]bool{}
		sr.histUps[nt] = map[string]bool{}
	}
	switch x := b.(type) {
	case tally.DurationBuckets:
		ds := make([]int64, len(x))
		for i, d := range x {
			ds[i] = int64(d)
		}
		sort.Slice(ds, func(i, j int) bool { return ds[i] < ds[j] })
		lo := int64(math.MinInt64)
		for _, d := range append(ds, math.MaxInt64) {
			sr.histPairs[nt][fmt.Sprintf("d%d|%d", lo, d)] = true
			sr.histUps[nt][fmt.Sprintf("d%d", d)] = true
			lo = d
		}
	case tally.ValueBuckets:
		vs := append([]float64(nil), x...)
		sort.Float64s(vs)
		lo := -math.MaxFloat64
		for _, v := range append(vs, math.MaxFloat64) {
			sr.histPairs[nt]["v"+f64hex(lo)+"|"+f64hex(v)] = true
			sr.histUps[nt]["v"+f64hex(v)] = true
			lo = v
		}
	default:
		sr.histPairs[nt]["any"] = true // nil: the scope's default buckets
	}
}

// checkSanitized: C06's end-to-end clause, independent of the model — every name, tag key and tag value a
// reporter is handed is a fixed point of the configured sanitizer (sanitizer outputs are closed under
// concatenation and sanitizing is idempotent, both proved for the model of sanitizeFn; the sanitizer
// function itself is compared with that model byte for byte by suite c06)
func (sr *scopeRun) checkSanitized(name string, tags map[string]string) {
	if sr.sanViol != "" {
		return
	}
	if sr.san.Name(name) != name {
		sr.sanViol = fmt.Sprintf("metric name %q reached the reporter; the sanitizer turns it into %q", name, sr.san.Name(name))
		return
	}
	for k, v := range tags {
		if sr.san.Key(k) != k {
			sr.sanViol = fmt.Sprintf("tag key %q (of %q) reached the reporter; the sanitizer turns it into %q", k, name, sr.san.Key(k))
			return
		}
		if sr.san.Value(v) != v {
			sr.sanViol = fmt.Sprintf("tag value %q (key %q of %q) reached the reporter; the sanitizer turns it into %q", v, k, name, sr.san.Value(v))
			return
		}
	}
}

func (sr *scopeRun) checkPair(nt, pair string) {
	allowed := sr.histPairs[nt]
	if allowed == nil || allowed["any"] || allowed[pair] || sr.histViol != "" {
		return
	}
	sr.histViol = fmt.Sprintf("histogram %s delivered samples for bucket %s, which is not a bucket of any specification it was created with", nt, pair)
}

func (sr *scopeRun) checkSnap(snap tally.Snapshot) {
	// independence: the harness overwrites every earlier snapshot (tag values "MUTATED", timer values 12345ns,
	// histogram counts -1); none of that may be visible in a later snapshot
	if sr.indepViol == "" {
		for _, cs := range snap.Counters() {
			for _, v := range cs.Tags() {
				if v == "MUTATED" {
					sr.indepViol = fmt.Sprintf("counter %s: a tag value written into an EARLIER snapshot is visible in a later one", cs.Name())
				}
			}
		}
		for _, tsn := range snap.Timers() {
			for _, v := range tsn.Values() {
				if v == 12345 {
					sr.indepViol = fmt.Sprintf("timer %s: a value written into an EARLIER snapshot (12345ns) is visible in a later one: %v", tsn.Name(), tsn.Values())
				}
			}
		}
		for _, hs := range snap.Histograms() {
			for _, n := range hs.Values() {
				if n == -1 {
					sr.indepViol = fmt.Sprintf("histogram %s: a count written into an EARLIER snapshot (-1) is visible in a later one", hs.Name())
				}
			}
			for _, n := range hs.Durations() {
				if n == -1 {
					sr.indepViol = fmt.Sprintf("histogram %s: a count written into an EARLIER snapshot (-1) is visible in a later one", hs.Name())
				}
			}
		}
	}
	// "one entry per metric": while nothing has been closed, every counter the program created (on the root or on
	// any derived scope) has an entry, whichever scope of the tree the snapshot was taken through
	// (a TEST scope's subscopes and their metrics survive Close: there the oracle holds after subscope closes as well,
	// also for metrics first used after the Close)
	if sr.missViol == "" && (len(sr.closed) == 0 || sr.kind == "none") && !sr.rootDead {
		have := map[string]bool{}
		for _, cs := range snap.Counters() {
			have[hxs(cs.Name())+"|"+mapHex(cs.Tags())] = true
		}
		for nt, p := range sr.ctrNT {
			if !have[nt] {
				sr.missViol = fmt.Sprintf("counter %s, created on scope %d, has no entry in the snapshot (%d counter entries)", nt, p, len(snap.Counters()))
				break
			}
		}
	}
	// "keyed by its full name and tags": the snapshot's map key is the public key function of (name, tags)
	if sr.keyViol == "" {
		chk := func(kind, k, name string, tags map[string]string) {
			if want := tally.KeyForPrefixedStringMap(name, tags); k != want && sr.keyViol == "" {
				sr.keyViol = fmt.Sprintf("%s %q with tags %v is stored under snapshot key %q; KeyForPrefixedStringMap(name, tags) is %q", kind, name, tags, k, want)
			}
		}
		for k, v := range snap.Counters() {
			chk("counter", k, v.Name(), v.Tags())
		}
		for k, v := range snap.Gauges() {
			chk("gauge", k, v.Name(), v.Tags())
		}
		for k, v := range snap.Timers() {
			chk("timer", k, v.Name(), v.Tags())
		}
		for k, v := range snap.Histograms() {
			chk("histogram", k, v.Name(), v.Tags())
		}
	}
	for _, h := range snap.Histograms() {
		nt := hxs(h.Name()) + "|" + mapHex(h.Tags())
		allowed := sr.histUps[nt]
		if allowed == nil || sr.histPairs[nt]["any"] || sr.histViol != "" {
			continue
		}
		for b := range h.Values() {
			if !allowed["v"+f64hex(b)] {
				sr.histViol = fmt.Sprintf("snapshot of histogram %s shows value bound %v, which is not a bound of any specification it was created with", nt, b)
			}
		}
		for b := range h.Durations() {
			if !allowed[fmt.Sprintf("d%d", int64(b))] {
				sr.histViol = fmt.Sprintf("snapshot of histogram %s shows duration bound %v, which is not a bound of any specification it was created with", nt, b)
			}
		}
	}
}

func specTok(b tally.Buckets) string {
	switch x := b.(type) {
	case nil:
		return "nil"
	case tally.DurationBuckets:
		is := make([]int64, len(x))
		for i, d := range x {
			is[i] = int64(d)
		}
		return "d" + i64List(is)
	case tally.ValueBuckets:
		return "v" + f64List(x)
	}
	return "nil"
}

func suiteScope(c *Ctx, mode string) {
	rules := map[string]string{
		"c04": "random derivation programs (depth 0-6 of SubScope/Tagged over a root with random prefix, separator, tags, sanitizer, reporter flavour, shard count) followed by metric creation, recording and report passes; names/keys/values from a mixed alphabet (ASCII, delimiters + , = \\, empty, multi-byte, invalid UTF-8); every API result and every reporter event compared with Model.Scope and judged by the derivation oracle; caller maps are mutated after hand-over; nontrivial = depth>=2 with a re-tagged key, or a delimiter/invalid byte in a component; distinct by program text",
		"c05": "pairs of derivation programs reaching equal or different identities (permuted / regrouped Tagged calls, keys and values rich in , = + and empty strings), shard counts 1-64; pointer identity classes of scopes and metrics compared with the model and judged by the identity oracle; plus the public key functions on random map lists; nontrivial = the two programs differ textually, or a string contains a delimiter; distinct by program text",
		"c10": "random histories of Timer.Record / Stopwatch (scripted clock) / duration-histogram stopwatch on timers of random scopes interleaved with report passes; plain, cached and reporter-less test scopes; durations negative, zero, int64 extremes; instrument.Call with nil/non-nil errors; nontrivial = a report pass lies between two records of one timer, or the duration is <= 0 or extreme; distinct by program text",
		"c11": "random record histories on a test scope tree with snapshots at random points; snapshot mutated by the harness after taking it; subscopes closed between snapshots; bucket specs with duplicate bounds; nontrivial = snapshot taken between records with >= 2 metric kinds present; distinct by program text",
		"c07": "sequential {obtain, record, Close, report, obtain again} cycles on 1-3 identities with 1-64 shards, plain and cached reporters, with and without a sanitizer that aliases two raw keys; nontrivial = a closed scope is re-acquired or reported; distinct by program text",
	}
	c.Cov.Rule = rules[mode]
	if mode == "c10" {
		scopeLongTimerHistory(c)
	}
	n := c.N(1500, 15000)
	for i := 0; i < n; i++ {
		r := c.Rng.Fork()
		if pan, val := catch(func() { runScopeProgram(c, r, mode) }); pan {
			// the library panicked inside an API call of the program: a crash of the implementation, not of the harness
			c.Cov.Fail(Failure{Kind: "crash", Clause: "no-panic", Signature: "scope-" + mode + "-panic", Line: fmt.Sprintf("program %d of seed %d", i, c.Seed), Reply: fmt.Sprint(val)})
			// (the scripted clock and alias mode are restored by the program's own defers; the next program
			// starts with a fresh "root" line, which resets the driver's model state)
		}
	}
	if mode == "c05" {
		scopeKeyCases(c, c.N(1500, 20000))
	}
}

func scopeKeyCases(c *Ctx, n int) {
	for i := 0; i < n; i++ {
		r := c.Rng.Fork()
		pfx := genScopeStr(r, false)
		nm := r.Range(0, 3)
		maps := make([]map[string]string, nm)
		toks := make([]string, nm)
		wide := r.Chance(8)
		if wide {
			nm = r.Range(2, 3)
			maps, toks = make([]map[string]string, nm), make([]string, nm)
			c.Cov.Hit("key.wide-maps")
		}
		for j := range maps {
			maps[j] = map[string]string{}
			for k := r.Intn(4); k > 0 && !wide; k-- {
				maps[j][genScopeStr(r, false)] = genScopeStr(r, false)
			}
			for k := 9 + r.Intn(6); k > 0 && wide; k-- {
				// 9-14 entries per map over 24 labels: more than 16 pairs in all, several keys overridden
				maps[j][fmt.Sprintf("l%02d", r.Intn(24))] = genScopeStr(r, false)
			}
			toks[j] = mapHex(maps[j])
		}
		var got string
		mt := "-"
		if nm > 0 {
			mt = strings.Join(toks, "/")
		}
		switch {
		case nm == 1 && pfx == "" && r.Bool():
			got = tally.KeyForStringMap(maps[0])
		case nm == 1 && r.Bool():
			got = tally.KeyForPrefixedStringMap(pfx, maps[0])
		default:
			got = tally.VerifKeyForPrefixedStringMaps(pfx, maps...)
		}
		line := fmt.Sprintf("key %s %s", hxs(pfx), mt)
		delim := strings.ContainsAny(pfx+mt, "") || strings.ContainsAny(pfx+fmt.Sprint(maps), "+,=\\")
		c.Cov.Eval(line, delim || nm > 1)
		if delim {
			c.Cov.Hit("key.has-delimiter")
		}
		sig := "key-plain"
		if delim {
			sig = "key-with-delimiter"
		}
		for _, m := range maps {
			if _, ok := m[""]; ok {
				sig = "key-with-empty-tag-key"
			}
		}
		c.Cov.Check(c.Drv, line+" => "+hxs(got), sig)
		// determinism
		if got2 := tally.VerifKeyForPrefixedStringMaps(pfx, maps...); got2 != got && nm != 1 {
			c.Cov.Fail(Failure{Kind: "violated", Clause: "key-deterministic", Signature: sig, Line: line})
		}
	}
}

func runScopeProgram(c *Ctx, r *Rng, mode string) {
	sr := &scopeRun{c: c, r: r, scopeID: map[tally.Scope]int{}, metricID: map[interface{}]int{}, closed: map[int]bool{},
		histB: map[int][][2]string{}, histKind: map[int]string{}, how: map[int]scopeHow{}, sigBase: "scope-" + mode + "-", depth: map[int]int{},
		consLive: map[string]int64{}, consFuzzy: map[string]bool{}, consGot: map[string]int64{}, gLast: map[string]string{}, gFuzzy: map[string]bool{}, gGot: map[string]string{}, mScope: map[int]int{}, mNT: map[int]string{}, hKind: map[int]byte{}, hNT: map[int]string{}, hScope: map[int]int{}, hLive: map[string]int64{}, hGot: map[string]int64{}, hFuzzy: map[string]bool{}, defKind: 'd',
		histPairs: map[string]map[string]bool{}, histUps: map[string]map[string]bool{}}
	sg := genSan(r)
	if (mode == "c04" || mode == "c05") && r.Chance(6) {
		sr.wide = true
		c.Cov.Hit("tags.wide-maps")
	}
	aliasMode = false
	if mode == "c07" && r.Chance(40) {
		o := m3.DefaultSanitizerOpts
		sg = sanGen{&o, vcTok(o.NameCharacters) + "/" + vcTok(o.KeyCharacters) + "/" + vcTok(o.ValueCharacters) + "/" + strconv.Itoa(int(o.ReplacementCharacter))}
		aliasMode = true
		c.Cov.Hit("c07.alias-mode")
	}
	defer func() { aliasMode = false }()
	if mode == "c10" || mode == "c11" {
		if r.Chance(70) {
			sg = sanGen{nil, "-"}
		}
	}
	sr.san = tally.NewNoOpSanitizer()
	sr.noSan = sg.opts == nil
	if sg.opts != nil {
		sr.san = tally.NewSanitizer(*sg.opts)
	}
	kinds := []string{"plain", "cached", "none"}
	sr.kind = kinds[r.Intn(3)]
	if mode == "c11" {
		sr.kind = "none"
		if r.Chance(20) {
			sr.kind = "plain"
		}
	}
	if mode == "c07" && sr.kind == "none" {
		sr.kind = "plain"
	}
	shards := uint(1)
	if r.Bool() && !aliasMode {
		shards = uint(r.Range(1, 64))
	}
	closable := r.Bool()
	pfx := genScopeStr(r, false)
	if r.Chance(30) {
		pfx = ""
	}
	sep := ""
	if r.Chance(30) {
		sep = []string{"_", "::", "-", ".", "é", "/", ":", " ", "a+b", "\xff"}[r.Intn(10)]
	}
	rootTags := sr.genTags(2)
	if r.Chance(15) { // a root tag with an empty value (e.g. built from an unset environment variable)
		k := genScopeStr(r, false)
		dup := false
		for k2 := range rootTags {
			if sr.san.Key(k2) == sr.san.Key(k) {
				dup = true
			}
		}
		if !dup {
			rootTags[k] = ""
		}
	}
	rootTok := mapHex(rootTags)
	sr.rootRaw = copyTags(rootTags)
	opts := tally.ScopeOptions{Prefix: pfx, Separator: sep, Tags: rootTags, SanitizeOptions: sg.opts, OmitCardinalityMetrics: true}
	defb := "-"
	switch w := r.Intn(100); {
	case w < 9:
		b := toDurs([]int64{5e6, 1e6, 5e6})
		opts.DefaultBuckets = b
		defb = specTok(b)
	case w < 15:
		b := tally.ValueBuckets{2.5, 1, 2.5, 7}
		opts.DefaultBuckets = b
		defb = specTok(b)
		sr.defKind = 'v'
	case w < 19: // a default specification without bounds counts as "not configured": the library's default buckets
		opts.DefaultBuckets = []tally.Buckets{tally.ValueBuckets{}, tally.DurationBuckets{}}[r.Intn(2)]
	}
	// the library's own cardinality gauges (on by default in the library): a third of the programs with a
	// reporter keep them, with 0-2 extra tags (now and then overriding one of the default keys)
	cardTok := "omit"
	if sr.kind != "none" && r.Chance(35) {
		ct := sr.genTags(2)
		if r.Chance(25) {
			k := []string{"host", "version", "instance"}[r.Intn(3)]
			dup := false
			for k2 := range ct {
				if sr.san.Key(k2) == sr.san.Key(k) {
					dup = true
				}
			}
			if !dup {
				ct[k] = genScopeStr(r, false)
			}
		}
		opts.OmitCardinalityMetrics = false
		opts.CardinalityMetricsTags = ct
		cardTok = mapHex(ct)
		c.Cov.Hit("cardinality-metrics-on")
	}
	var ts tally.TestScope
	switch sr.kind {
	case "plain":
		sr.rec = newRec()
		if closable {
			opts.Reporter = recReporterCloser{sr.rec}
		} else {
			opts.Reporter = sr.rec
		}
	case "cached":
		sr.recC = newRecCached()
		if closable {
			opts.CachedReporter = recCachedCloser{sr.recC}
		} else {
			opts.CachedReporter = sr.recC
		}
	}
	// a third of the roots are created through the exported constructors (NewRootScope / NewTestScope) rather than
	// the shims with an explicit shard count: the registry then has GOMAXPROCS shards
	public := r.Chance(33) && !aliasMode
	if public {
		shards = uint(runtime.GOMAXPROCS(-1))
		c.Cov.Hit("root-through-exported-constructor")
	}
	if sr.kind == "none" {
		// test scope: same as NewTestScope, but keep the options above (sanitizer etc. are not available there)
		if public {
			ts = tally.NewTestScope(pfx, rootTags)
		} else {
			ts = tally.VerifNewTestScope(pfx, rootTags, shards)
		}
		sr.root = ts
		sr.closer = ts.(io.Closer)
		sg = sanGen{nil, "-"}
		sr.san = tally.NewNoOpSanitizer()
		sep = ""
		defb = "-"
		closable = false
	} else if public {
		sr.root, sr.closer = tally.NewRootScope(opts, 0)
	} else {
		sr.root, sr.closer = tally.VerifNewRootScope(opts, 0, shards)
	}
	cl := "0"
	if closable {
		cl = "1"
	}
	// the library must not have mutated the caller's maps (ScopeOptions is passed by value, its maps are not)
	if mapHex(rootTags) != rootTok || (opts.CardinalityMetricsTags != nil && mapHex(opts.CardinalityMetricsTags) != cardTok) {
		c.Cov.Fail(Failure{Kind: "violated", Clause: "caller-map-not-mutated", Signature: sr.sigBase + "root-options-map-mutated",
			Line:  fmt.Sprintf("root tags %s, cardinality tags %s handed to the constructor", rootTok, cardTok),
			Reply: fmt.Sprintf("after the constructor returned: root tags %s", mapHex(rootTags))})
	}
	rootLine := fmt.Sprintf("root %s %s %d %s %s %s %s %s", sr.kind, cl, shards, sg.tok, hxs(pfx), hxs(sep), rootTok, defb)
	if cardTok != "omit" {
		// the registry's constructor allocates the four gauges from a cached reporter
		rootLine += " " + cardTok + " => " + sr.events()
	}
	sr.lines = append(sr.lines, rootLine)
	if rep := c.Drv.Ask(rootLine); rep != "ok" {
		kind := "bad-op"
		if strings.HasPrefix(rep, "differ") {
			kind = "differ"
		}
		c.Cov.Fail(Failure{Kind: kind, Clause: "root", Signature: sr.sigBase + "root", Line: rootLine, Reply: rep})
		if kind == "bad-op" {
			return
		}
		sr.failed = true
	}
	// mutate the caller's root tag map: must change nothing
	for k := range rootTags {
		rootTags[k] = "MUTATED"
	}
	rootTags["zz-added"] = "x"
	sr.idOf(sr.root)
	sr.events()
	sr.sepS = sr.san.Name(sep)
	if sep == "" {
		sr.sepS = sr.san.Name(".")
	}

	nops := r.Range(6, 40)
	clockNow := time.Unix(1000, 0)
	restore := tally.VerifSetNow(func() time.Time { return clockNow })
	defer restore()
	rootClosed := false
	nontrivial := false
	for k := 0; k < nops; k++ {
		live := []int{}
		for id := range sr.scopes {
			live = append(live, id)
		}
		pick := func() int { return live[r.Intn(len(live))] }
		w := r.Intn(100)
		// mode-specific weights
		switch {
		case w < 14 || (k < 4 && mode != "c10" && mode != "c11"): // sub
			p := pick()
			name := genScopeStr(r, false)
			sh := sr.shardFor(p, &name, nil)
			s := sr.scopes[p].SubScope(name)
			sr.checkInert(p, s)
			id := sr.idOf(s)
			sr.say(fmt.Sprintf("sub %d %s %d => %s %s", p, hxs(name), sh, id, sr.events()), "sub")
			if i, err := strconv.Atoi(id); err == nil {
				if sr.depth[i] < sr.depth[p]+1 {
					sr.depth[i] = sr.depth[p] + 1
				}
				if _, ok := sr.how[i]; !ok && i != p {
					nm := name
					sr.how[i] = scopeHow{parent: p, name: &nm}
				}
			}
			if strings.ContainsAny(name, "+,=\\\xff") {
				nontrivial = true
			}
		case w < 32 && (mode == "c04" || mode == "c05") && r.Chance(12): // two tag sets a careless key writer confuses
			p := pick()
			k1, v1, k2, v2 := string(rune('a'+r.Intn(3))), genScopeStr(r, false), string(rune('d'+r.Intn(3))), genScopeStr(r, false)
			var ma, mb map[string]string
			switch r.Intn(4) {
			case 0: // value swallowing the next pair
				ma, mb = map[string]string{k1: v1 + "," + k2 + "=" + v2}, map[string]string{k1: v1, k2: v2}
			case 1: // escape byte at the end of a value / key
				ma, mb = map[string]string{k1: "\\", k2 + "\\": v2}, map[string]string{k1: "," + k2 + "=" + v2}
			case 2: // escaped delimiter vs escape byte followed by a delimiter
				ma, mb = map[string]string{k1: v1 + "\\,x"}, map[string]string{k1: v1 + "\\", "x": ""}
			default: // key containing the pair separator
				ma, mb = map[string]string{k1 + "=" + v1: v2}, map[string]string{k1: v1 + "=" + v2}
			}
			for _, m := range []map[string]string{ma, mb} {
				clean := true
				seen := map[string]bool{}
				for k := range m {
					if seen[sr.san.Key(k)] {
						clean = false
					}
					seen[sr.san.Key(k)] = true
				}
				if !clean {
					continue
				}
				tok := mapHex(m)
				sh := sr.shardFor(p, nil, m)
				s2 := sr.scopes[p].Tagged(m)
				sr.checkInert(p, s2)
				id := sr.idOf(s2)
				sr.say(fmt.Sprintf("tag %d %s %d => %s %s", p, tok, sh, id, sr.events()), "tag-collision-candidate")
				if i, err := strconv.Atoi(id); err == nil {
					if _, ok := sr.how[i]; !ok && i != p {
						sr.how[i] = scopeHow{parent: p, tags: copyTags(m)}
					}
				}
			}
			nontrivial = true
			c.Cov.Hit("program.collision-candidates")
		case w < 32: // tagged
			p := pick()
			m := sr.genTags(3)
			if r.Chance(40) && len(sr.scopes) > 1 { // re-tag an existing key of the parent
				pt := tally.VerifScopeTags(sr.scopes[p])
				pks := make([]string, 0, len(pt))
				for k := range pt {
					pks = append(pks, k)
				}
				sort.Strings(pks) // never let Go's map order decide a generated choice
				if len(pks) > 0 {
					k := pks[r.Intn(len(pks))]
					for k2 := range m { // keep sanitized keys of one map pairwise distinct
						if k2 != k && sr.san.Key(k2) == sr.san.Key(k) {
							delete(m, k2)
						}
					}
					m[k] = genScopeStr(r, false)
					sr.retagged = true
				}
			}
			ownRoot, ownP := false, 0
			if r.Chance(12) {
				// re-tag a scope with (a subset of) its OWN tags, spelled as the application spelled them when it created
				// the scope (for the root: the tags given to the constructor): the identity is the scope's own, so the
				// scope itself must come back - whichever shard that spelling hashes to
				var own map[string]string
				if p == 0 {
					own = sr.rootRaw
				} else if h, ok := sr.how[p]; ok && h.tags != nil {
					own = h.tags
				}
				if len(own) > 0 {
					ks := make([]string, 0, len(own))
					for k := range own {
						ks = append(ks, k)
					}
					sort.Strings(ks)
					m = map[string]string{}
					for _, k := range ks {
						if r.Chance(70) {
							m[k] = own[k]
						}
					}
					if len(m) == 0 {
						m[ks[0]] = own[ks[0]]
					}
					c.Cov.Hit("tagged.with-own-tags")
					// C05 promises the very same scope "through inputs the sanitizer leaves unchanged" only
					// (for a derived scope: the derivation that created it included - its shard is that of the key as the
					// application spelled it then)
					unchanged := true
					for k, v := range m {
						if sr.san.Key(k) != k || sr.san.Value(v) != v {
							unchanged = false
						}
					}
					if p != 0 {
						for k, v := range own {
							if sr.san.Key(k) != k || sr.san.Value(v) != v {
								unchanged = false
							}
						}
					}
					ownRoot = unchanged && !rootClosed && (p == 0 || !sr.closed[p])
					ownP = p
				}
			}
			keep := copyTags(m)
			tok := mapHex(m)
			sh := sr.shardFor(p, nil, m)
			s := sr.scopes[p].Tagged(m)
			if ownRoot && s != sr.scopes[ownP] {
				// same prefix, same effective tag set, spelled as the sanitizer leaves it: the very same live scope
				c.Cov.Fail(Failure{Kind: "violated", Clause: "same-identity-same-scope", Signature: sr.sigBase + "own-identity-second-scope",
					Line: strings.Join(sr.lines, " ; "), Reply: fmt.Sprintf("scope %d .Tagged(%s) - (a subset of) the tags the scope was created with, which the sanitizer leaves unchanged - returned another scope than scope %d", ownP, tok, ownP), Detail: strings.Join(sr.lines, "\n")})
			}
			// the library must not have mutated the map; mutating it afterwards must change nothing
			if mapHex(m) != tok {
				c.Cov.Fail(Failure{Kind: "violated", Clause: "caller-map-not-mutated", Signature: sr.sigBase + "tagged-mutates-argument", Line: strings.Join(sr.lines, "\n")})
			}
			for kk := range m {
				m[kk] = "MUTATED-AFTER"
			}
			m["zz-added-after"] = "y"
			_ = keep
			sr.checkInert(p, s)
			id := sr.idOf(s)
			sr.say(fmt.Sprintf("tag %d %s %d => %s %s", p, tok, sh, id, sr.events()), "tag")
			if i, err := strconv.Atoi(id); err == nil {
				if _, ok := sr.how[i]; !ok && i != p {
					sr.how[i] = scopeHow{parent: p, tags: keep}
				}
				if sr.depth[i] < sr.depth[p]+1 {
					sr.depth[i] = sr.depth[p] + 1
				}
				if sr.depth[i] >= 2 && sr.retagged {
					nontrivial = true
					c.Cov.Hit("program.retag-depth>=2")
				}
			}
			if strings.ContainsAny(tok, "") && strings.ContainsAny(fmt.Sprint(keep), "+,=\\") {
				nontrivial = true
			}
		case w < 50: // create metric
			p := pick()
			name := genScopeStr(r, true)
			switch r.Intn(4) {
			case 0:
				m := sr.scopes[p].Counter(name)
				sr.noteCounter(m, p, name)
				sr.say(fmt.Sprintf("counter %d %s => %s %s", p, hxs(name), sr.midOf(m, "counter"), sr.events()), "metric")
			case 1:
				m := sr.scopes[p].Gauge(name)
				sr.noteGauge(m, p, name)
				sr.say(fmt.Sprintf("gauge %d %s => %s %s", p, hxs(name), sr.midOf(m, "gauge"), sr.events()), "metric")
			case 2:
				m := sr.scopes[p].Timer(name)
				sr.say(fmt.Sprintf("timer %d %s => %s %s", p, hxs(name), sr.midOf(m, "timer"), sr.events()), "metric")
				sr.noteObject("timer", m, p, name)
			default:
				var b tally.Buckets
				switch r.Intn(4) {
				case 0:
					b = nil
				case 1:
					b = toDurs([]int64{int64(r.Range(1, 5)) * 1e6, 1e6, 9e6, 1e6})
				case 2:
					b = tally.ValueBuckets{float64(r.Range(1, 4)), 1, 8, 1}
				default:
					b = tally.ValueBuckets{2, float64(r.Range(3, 9))}
				}
				if r.Chance(35) {
					// specifications whose cache identity collides (same sum of bit patterns, same length; also
					// across kinds): the histogram must still use the bounds it was created with
					b = collidingSpecs[r.Intn(len(collidingSpecs))]
					c.Cov.Hit("hist.colliding-spec")
				}
				if r.Chance(8) {
					// a non-nil specification without bounds: one bucket of its own kind, not the default buckets
					// (spelled as an empty literal or as a typed nil slice - `var set tally.ValueBuckets` - inside the interface)
					b = []tally.Buckets{tally.ValueBuckets{}, tally.DurationBuckets{}, tally.ValueBuckets(nil), tally.DurationBuckets(nil)}[r.Intn(4)]
					c.Cov.Hit("hist.empty-spec")
				}
				sr.noteHist(p, name, b)
				m := sr.scopes[p].Histogram(name, b)
				sr.say(fmt.Sprintf("hist %d %s %s => %s %s", p, hxs(name), specTok(b), sr.midOf(m, "hist"), sr.events()), "metric")
				sr.noteHistMetric(m, p, name, b)
				sr.noteObject("histogram", m, p, name)
			}
		case w < 78 && len(sr.metrics) > 0: // record
			mid := r.Intn(len(sr.metrics))
			switch m := sr.metrics[mid].(type) {
			case tally.Counter:
				v := int64(r.Range(-3, 9))
				if r.Chance(10) {
					v = c01IncPool[r.Intn(len(c01IncPool))]
				}
				m.Inc(v)
				sr.noteInc(mid, v)
				sr.say(fmt.Sprintf("inc %d %d => %s", mid, v, sr.events()), "record")
			case tally.Gauge:
				v := float64(r.Range(-5, 50))
				if r.Chance(20) {
					v = c02ValuePool[r.Intn(len(c02ValuePool))]
				}
				m.Update(v)
				sr.noteUpd(mid, v)
				sr.say(fmt.Sprintf("upd %d %s => %s", mid, f64hex(v), sr.events()), "record")
			case tally.Timer:
				d := int64(r.Range(-2, 1000)) * 1e6
				if r.Chance(15) {
					d = []int64{0, -1, math.MaxInt64, math.MinInt64, 1}[r.Intn(5)]
				}
				if r.Chance(30) { // stopwatch with the scripted clock
					if stepped, ok := wallStepClock(r, d); ok {
						// the wall clock is stepped (NTP, `date -s`) between Start and Stop: the instants are what
						// time.Now() returns then - monotonic readings d apart, wall readings an hour or a year off
						saved := clockNow
						clockNow = stepped[0]
						sw := m.Start()
						clockNow = stepped[1]
						sw.Stop()
						clockNow = saved
						c.Cov.Hit("timer.stopwatch.wall-clock-stepped")
					} else {
						sw := m.Start()
						clockNow = clockNow.Add(time.Duration(d))
						sw.Stop()
					}
					c.Cov.Hit("timer.stopwatch")
				} else {
					m.Record(time.Duration(d))
				}
				if d <= 0 || d == math.MaxInt64 {
					nontrivial = nontrivial || mode == "c10"
				}
				sr.say(fmt.Sprintf("rec %d %d => %s", mid, d, sr.events()), "timer")
			case tally.Histogram:
				if r.Bool() {
					v := float64(r.Range(0, 10))
					m.RecordValue(v)
					sr.noteSample(mid, 'v')
					sr.say(fmt.Sprintf("recv %d %s => %s", mid, f64hex(v), sr.events()), "record")
				} else {
					d := int64(r.Range(0, 10)) * 1e6
					if r.Chance(30) {
						if stepped, ok := wallStepClock(r, d); ok {
							saved := clockNow
							clockNow = stepped[0]
							sw := m.Start()
							clockNow = stepped[1]
							sw.Stop()
							clockNow = saved
							c.Cov.Hit("histogram.stopwatch.wall-clock-stepped")
						} else {
							sw := m.Start()
							clockNow = clockNow.Add(time.Duration(d))
							sw.Stop()
						}
						c.Cov.Hit("histogram.stopwatch")
					} else {
						m.RecordDuration(time.Duration(d))
					}
					sr.noteSample(mid, 'd')
					sr.say(fmt.Sprintf("recd %d %d => %s", mid, d, sr.events()), "record")
				}
			}
		case w < 88: // report pass
			tally.VerifReportOnce(sr.root)
			sr.say("report => "+sr.events(), "report")
			if mode == "c10" {
				nontrivial = true
			}
		case (w < 91 || (w < 97 && r.Chance(50))) && mode == "c07" && len(sr.how) > 0: // close a subscope and immediately obtain its identity again (maybe through an aliasing input)
			ids := make([]int, 0, len(sr.how))
			for id := range sr.how {
				ids = append(ids, id)
			}
			sort.Ints(ids)
			id := ids[r.Intn(len(ids))]
			h := sr.how[id]
			if r.Chance(60) && !sr.closed[id] {
				// make sure the scope holds something unreported when it is closed and re-acquired: the
				// report-on-reacquire (C01/C07) is then visible in the events of the reacquire line
				m := sr.scopes[id].Counter("rq")
				sr.noteCounter(m, id, "rq")
				sr.say(fmt.Sprintf("counter %d %s => %s %s", id, hxs("rq"), sr.midOf(m, "counter"), sr.events()), "metric")
				v := int64(r.Range(1, 9))
				m.Inc(v)
				sr.noteInc(sr.metricID[m], v)
				sr.say(fmt.Sprintf("inc %d %d => %s", sr.metricID[m], v, sr.events()), "record")
				c.Cov.Hit("c07.reacquire-with-unreported-counter")
			}
			if r.Chance(70) {
				if cl, ok := sr.scopes[id].(io.Closer); ok {
					cl.Close()
					sr.closed[id] = true
					sr.say(fmt.Sprintf("close %d => %s", id, sr.events()), "close-sub")
				}
			}
			if r.Chance(30) {
				tally.VerifReportOnce(sr.root)
				sr.say("report => "+sr.events(), "report")
			}
			alias := func(x string) string {
				if aliasMode && r.Chance(60) {
					return aliasPool[r.Intn(3)] // the three members that sanitize to k_1
				}
				return x
			}
			if h.name != nil {
				name := alias(*h.name)
				sh := sr.shardFor(h.parent, &name, nil)
				s2 := sr.scopes[h.parent].SubScope(name)
				sr.checkInert(h.parent, s2)
				sr.say(fmt.Sprintf("sub %d %s %d => %s %s", h.parent, hxs(name), sh, sr.idOf(s2), sr.events()), "reacquire")
			} else {
				m := map[string]string{}
				seen := map[string]bool{}
				hks := make([]string, 0, len(h.tags))
				for k := range h.tags {
					hks = append(hks, k)
				}
				sort.Strings(hks)
				for _, k := range hks {
					k2 := alias(k)
					if seen[sr.san.Key(k2)] {
						k2 = k
					}
					if seen[sr.san.Key(k2)] {
						continue // two raw keys of one map must not sanitize to the same key (map order would decide)
					}
					seen[sr.san.Key(k2)] = true
					m[k2] = h.tags[k]
				}
				tok := mapHex(m)
				sh := sr.shardFor(h.parent, nil, m)
				s2 := sr.scopes[h.parent].Tagged(m)
				sr.checkInert(h.parent, s2)
				sr.say(fmt.Sprintf("tag %d %s %d => %s %s", h.parent, tok, sh, sr.idOf(s2), sr.events()), "reacquire")
			}
			nontrivial = true
			c.Cov.Hit("c07.reacquire")
		case w < 93 && (mode == "c07" || mode == "c11" || r.Chance(30)) && len(sr.scopes) > 1: // close a subscope
			id := 1 + r.Intn(len(sr.scopes)-1)
			if cl, ok := sr.scopes[id].(io.Closer); ok {
				cl.Close()
				sr.closed[id] = true
				sr.say(fmt.Sprintf("close %d => %s", id, sr.events()), "close-sub")
				if mode == "c07" {
					nontrivial = true
				}
			}
		case w < 95 && !rootClosed && (mode == "c07" || r.Chance(25)): // close root
			sr.closer.Close()
			rootClosed = true
			sr.rootDead = true
			sr.say("close 0 => "+sr.events(), "close-root")
		default: // snapshot
			if tsc, ok := sr.root.(tally.TestScope); ok {
				// "for a test scope and every scope derived from it": half of the snapshots are taken through a derived
				// scope (subscope or tagged scope, open or closed) - the snapshot is that of the whole tree either way
				if len(sr.scopes) > 1 && r.Bool() {
					if d, ok := sr.scopes[r.Intn(len(sr.scopes))].(tally.TestScope); ok {
						tsc = d
						c.Cov.Hit("snapshot.through-derived-scope")
					}
				}
				snap := tsc.Snapshot()
				sr.checkSnap(snap)
				sr.say("snap => "+snapTok(snap), "snapshot")
				// mutate the snapshot: must not affect the scope
				for _, cs := range snap.Counters() {
					for k := range cs.Tags() {
						cs.Tags()[k] = "MUTATED"
					}
				}
				for _, tsn := range snap.Timers() {
					vs := tsn.Values()
					for i := range vs {
						vs[i] = 12345
					}
				}
				for _, hs := range snap.Histograms() {
					for k := range hs.Values() {
						hs.Values()[k] = -1
					}
					for k := range hs.Durations() {
						hs.Durations()[k] = -1
					}
				}
				if mode == "c11" {
					nontrivial = true
				}
			}
		}
	}
	// final: one more pass and a snapshot, then close
	{
		tally.VerifReportOnce(sr.root)
		sr.say("report => "+sr.events(), "report")
		if tsc, ok := sr.root.(tally.TestScope); ok {
			snap := tsc.Snapshot()
			sr.checkSnap(snap)
			sr.say("snap => "+snapTok(snap), "snapshot")
		}
	}
	if !rootClosed {
		sr.closer.Close()
	}
	if sr.log() != nil {
		sr.events() // whatever the root's Close delivered
		nts := make([]string, 0, len(sr.consLive))
		for nt := range sr.consLive {
			nts = append(nts, nt)
		}
		sort.Strings(nts)
		// the oracle identifies a counter by the name and tags it expects the reporter to see; if deliveries arrived
		// under an identity no counter of this program has, naming is off (C04's concern) and sums cannot be matched
		known := map[string]bool{}
		for _, nt := range sr.mNT {
			known[nt] = true
		}
		for nt := range sr.consGot {
			if !known[nt] {
				nts = nil
				c.Cov.Hit("conservation.skipped-unexpected-identity-delivered")
				break
			}
		}
		for _, nt := range nts {
			if sr.consFuzzy[nt] {
				c.Cov.Hit("conservation.skipped-recorded-on-closed-scope")
				continue
			}
			c.Cov.Hit("conservation.checked")
			if sr.consGot[nt] != sr.consLive[nt] {
				c.Cov.Fail(Failure{Kind: "violated", Clause: "conservation", Signature: sr.sigBase + "conservation",
					Line:   strings.Join(sr.lines, " ; "),
					Reply:  fmt.Sprintf("counter %s: increments applied while its scope was live add up to %d, deliveries add up to %d (after a final pass and the root's Close)", nt, sr.consLive[nt], sr.consGot[nt]),
					Detail: strings.Join(sr.lines, "\n")})
				break
			}
		}
	}
	if sr.log() != nil {
		hnts := make([]string, 0, len(sr.hLive))
		for nt := range sr.hLive {
			hnts = append(hnts, nt)
		}
		sort.Strings(hnts)
		for _, nt := range hnts {
			if sr.hFuzzy[nt] {
				continue
			}
			c.Cov.Hit("histogram-conservation.checked")
			if sr.hGot[nt] != sr.hLive[nt] {
				c.Cov.Fail(Failure{Kind: "violated", Clause: "histogram-samples-conserved", Signature: sr.sigBase + "histogram-conservation",
					Line:   strings.Join(sr.lines, " ; "),
					Reply:  fmt.Sprintf("histogram %s: %d samples of its own kind were recorded while its scope was live, the bucket counts delivered add up to %d (after a final pass and the root's Close)", nt, sr.hLive[nt], sr.hGot[nt]),
					Detail: strings.Join(sr.lines, "\n")})
				break
			}
		}
	}
	if sr.log() != nil && sr.noSan {
		// gauges: after the final pass and the root's Close the reporter's most recent value of every gauge identity
		// is the last value set through any live handle (without a sanitizer one identity is one object, so "last" is
		// program order). Skipped when deliveries arrived under an identity no metric of the program has.
		known := map[string]bool{}
		for _, nt := range sr.mNT {
			known[nt] = true
		}
		ok := true
		for nt := range sr.gGot {
			if !known[nt] && !strings.HasPrefix(nt, hxs("tally.internal.")) {
				ok = false
			}
		}
		gnts := make([]string, 0, len(sr.gLast))
		for nt := range sr.gLast {
			gnts = append(gnts, nt)
		}
		sort.Strings(gnts)
		for _, nt := range gnts {
			if !ok || sr.gFuzzy[nt] {
				continue
			}
			c.Cov.Hit("gauge-latest.checked")
			if sr.gGot[nt] != sr.gLast[nt] {
				c.Cov.Fail(Failure{Kind: "violated", Clause: "latest-value", Signature: sr.sigBase + "gauge-latest-value",
					Line:   strings.Join(sr.lines, " ; "),
					Reply:  fmt.Sprintf("gauge %s: last value set while its scope was live %s, last value the reporter received %q (after a final pass and the root's Close)", nt, sr.gLast[nt], sr.gGot[nt]),
					Detail: strings.Join(sr.lines, "\n")})
				break
			}
		}
	}
	if sr.keyViol != "" {
		c.Cov.Fail(Failure{Kind: "violated", Clause: "snapshot-keyed-by-name-and-tags", Signature: sr.sigBase + "snapshot-key",
			Line: strings.Join(sr.lines, " ; "), Reply: sr.keyViol, Detail: strings.Join(sr.lines, "\n")})
	}
	if sr.sameObjViol != "" {
		c.Cov.Fail(Failure{Kind: "violated", Clause: "one-object-one-identity", Signature: sr.sigBase + "metric-object-shared-by-two-identities",
			Line: strings.Join(sr.lines, " ; "), Reply: sr.sameObjViol, Detail: strings.Join(sr.lines, "\n")})
	}
	if sr.missViol != "" {
		c.Cov.Fail(Failure{Kind: "violated", Clause: "one-entry-per-metric", Signature: sr.sigBase + "snapshot-entry-missing",
			Line: strings.Join(sr.lines, " ; "), Reply: sr.missViol, Detail: strings.Join(sr.lines, "\n")})
	}
	if sr.indepViol != "" {
		c.Cov.Fail(Failure{Kind: "violated", Clause: "snapshot-independent", Signature: sr.sigBase + "snapshot-aliases-scope",
			Line: strings.Join(sr.lines, " ; "), Reply: sr.indepViol, Detail: strings.Join(sr.lines, "\n")})
	}
	if sr.sanViol != "" {
		c.Cov.Fail(Failure{Kind: "violated", Clause: "reported-strings-sanitized", Signature: sr.sigBase + "unsanitized-string-reported",
			Line: strings.Join(sr.lines, " ; "), Reply: sr.sanViol, Detail: strings.Join(sr.lines, "\n")})
	}
	if sr.histViol != "" {
		c.Cov.Fail(Failure{Kind: "violated", Clause: "bounds-of-own-specification", Signature: sr.sigBase + "histogram-bounds",
			Line: strings.Join(sr.lines, " ; "), Reply: sr.histViol, Detail: strings.Join(sr.lines, "\n")})
	}
	key := strings.Join(sr.lines, " ; ")
	c.Cov.Eval(key, nontrivial)
	c.Cov.Hit("kind." + sr.kind)
	if sg.opts != nil {
		c.Cov.Hit("sanitizer.on")
	}
}

func snapTok(s tally.Snapshot) string {
	var out []string
	for k, v := range s.Counters() {
		out = append(out, fmt.Sprintf("c|%s|%s|%s|%d", hxs(k), hxs(v.Name()), mapHex(v.Tags()), v.Value()))
	}
	for k, v := range s.Gauges() {
		out = append(out, fmt.Sprintf("g|%s|%s|%s|%s", hxs(k), hxs(v.Name()), mapHex(v.Tags()), f64hex(v.Value())))
	}
	for k, v := range s.Timers() {
		vs := make([]string, len(v.Values()))
		for i, d := range v.Values() {
			vs[i] = strconv.FormatInt(int64(d), 10)
		}
		out = append(out, fmt.Sprintf("t|%s|%s|%s|%s", hxs(k), hxs(v.Name()), mapHex(v.Tags()), strings.Join(vs, ",")))
	}
	for k, v := range s.Histograms() {
		var es []string
		if v.Values() != nil {
			for b, n := range v.Values() {
				es = append(es, fmt.Sprintf("%s=%d", f64hex(b), n))
			}
			sort.Strings(es)
			out = append(out, fmt.Sprintf("hv|%s|%s|%s|%s", hxs(k), hxs(v.Name()), mapHex(v.Tags()), strings.Join(es, ",")))
		} else {
			for b, n := range v.Durations() {
				es = append(es, fmt.Sprintf("%d=%d", int64(b), n))
			}
			sort.Strings(es)
			out = append(out, fmt.Sprintf("hd|%s|%s|%s|%s", hxs(k), hxs(v.Name()), mapHex(v.Tags()), strings.Join(es, ",")))
		}
	}
	sort.Strings(out)
	return joinList(out)
}

// scopeLongTimerHistory: "exactly one delivery per Record" over a LONG history on one timer (model-independent): a
// reporter-less test scope keeps every recorded value for its snapshot, a recording reporter receives every one --
// 70000 records (more than 2^16) on one timer, in order.
func scopeLongTimerHistory(c *Ctx) {
	const n = 70000
	ts := tally.NewTestScope("long", nil)
	tm := ts.Timer("t")
	for i := 0; i < n; i++ {
		tm.Record(time.Duration(i))
	}
	snap := ts.Snapshot().Timers()
	got := -1
	bad := -1
	for _, t := range snap {
		vs := t.Values()
		got = len(vs)
		for i, v := range vs {
			if v != time.Duration(i) {
				bad = i
				break
			}
		}
	}
	line := fmt.Sprintf("test scope, one timer, %d records of distinct durations, snapshot", n)
	if got != n || bad >= 0 {
		c.Cov.Fail(Failure{Kind: "violated", Clause: "one-delivery-per-record", Signature: "scope-c10-long-history-test-scope", Line: line,
			Reply: fmt.Sprintf("the snapshot holds %d values (first wrong value at index %d)", got, bad)})
	}
	rec := newRec()
	root, closer := tally.VerifNewRootScope(tally.ScopeOptions{Reporter: rec, OmitCardinalityMetrics: true}, 0, 1)
	tm2 := root.SubScope("s").Timer("t")
	for i := 0; i < n; i++ {
		tm2.Record(time.Duration(i))
	}
	cnt := 0
	okOrder := true
	for _, e := range rec.log.Take() {
		if e.Kind == "timer" {
			if e.I != int64(cnt) {
				okOrder = false
			}
			cnt++
		}
	}
	closer.Close()
	if cnt != n || !okOrder {
		c.Cov.Fail(Failure{Kind: "violated", Clause: "one-delivery-per-record", Signature: "scope-c10-long-history-reporter", Line: "plain reporter, one timer, 70000 records",
			Reply: fmt.Sprintf("%d deliveries, in order: %v", cnt, okOrder)})
	}
	c.Cov.Hit("c10.long-history")
	c.Cov.Eval(line, true)
}
