package main

import (
	"fmt"
	"math"
	"strings"

	m3thrift "github.com/uber-go/tally/v4/m3/thrift/v2"
)

// token encodings shared by the thrift / m3 suites (see lean/Tally/Drv/Thrift.lean)

func tagsTok(tags []m3thrift.MetricTag) string {
	if tags == nil {
		return "~"
	}
	if len(tags) == 0 {
		return "-"
	}
	out := make([]string, len(tags))
	for i, t := range tags {
		out[i] = hxs(t.Name) + ":" + hxs(t.Value)
	}
	return strings.Join(out, ",")
}

func metricTok(m m3thrift.Metric) string {
	return fmt.Sprintf("%s|%d|%d|%s|%d|%d|%s", hxs(m.Name), int64(m.Value.MetricType), m.Value.Count, f64hex(m.Value.Gauge), m.Value.Timer, m.Timestamp, tagsTok(m.Tags))
}

func metricsTok(ms []m3thrift.Metric) string {
	if len(ms) == 0 {
		return "-"
	}
	out := make([]string, len(ms))
	for i, m := range ms {
		out[i] = metricTok(m)
	}
	return strings.Join(out, ";")
}

var m3I64Pool = []int64{0, 1, -1, 63, 64, -64, -65, 127, 128, 8191, 8192, 1 << 20, -(1 << 20), 1 << 34, 1 << 55, -(1 << 55), 1 << 62, math.MaxInt64, math.MinInt64, math.MaxInt64 - 1}

func genI64(r *Rng) int64 {
	switch r.Intn(4) {
	case 0:
		return m3I64Pool[r.Intn(len(m3I64Pool))]
	case 1:
		return int64(r.U64())
	default:
		return int64(r.Range(-200, 5000))
	}
}

var boundaryLens = []int{7, 8, 9, 14, 15, 16, 17, 31, 32, 33, 62, 63, 64, 65, 66, 126, 127, 128, 129, 255, 256, 257, 511, 512, 513, 1023, 1024}

func genBytesStr(r *Rng, max int) string {
	n := 0
	switch r.Intn(8) {
	case 0:
		n = 0
	case 1:
		n = r.Range(max/2, max)
	case 2:
		// lengths at and around the sizes where encoders switch representation or use fixed scratch buffers
		// (varint length 1->2 at 128, 64-byte scratch buffers, nibble-packed sizes at 15, ...)
		var cand []int
		for _, b := range boundaryLens {
			if b <= max {
				cand = append(cand, b)
			}
		}
		if len(cand) > 0 {
			n = cand[r.Intn(len(cand))]
		} else {
			n = r.Range(1, 12)
		}
	default:
		n = r.Range(1, 12)
	}
	b := make([]byte, n)
	for i := range b {
		if r.Chance(85) {
			b[i] = byte(r.Range('a', 'z'))
		} else {
			b[i] = byte(r.Intn(256))
		}
	}
	return string(b)
}

func genTagList(r *Rng, maxN, maxLen int) []m3thrift.MetricTag {
	switch r.Intn(6) {
	case 0:
		return nil
	case 1:
		return []m3thrift.MetricTag{}
	}
	n := r.Range(1, maxN)
	if r.Chance(80) && n > 4 {
		n = r.Range(1, 4)
	}
	out := make([]m3thrift.MetricTag, n)
	for i := range out {
		out[i] = m3thrift.MetricTag{Name: genBytesStr(r, maxLen), Value: genBytesStr(r, maxLen)}
	}
	return out
}

func genMetric(r *Rng, maxTags, maxLen int) m3thrift.Metric {
	m := m3thrift.Metric{Name: genBytesStr(r, maxLen), Timestamp: genI64(r), Tags: genTagList(r, maxTags, maxLen)}
	switch r.Intn(5) {
	case 0:
		m.Value.MetricType = m3thrift.MetricType_COUNTER
		m.Value.Count = genI64(r)
	case 1:
		m.Value.MetricType = m3thrift.MetricType_GAUGE
		m.Value.Gauge = c02ValuePool[r.Intn(len(c02ValuePool))]
		if r.Bool() {
			m.Value.Gauge = math.Float64frombits(r.U64())
		}
	case 2:
		m.Value.MetricType = m3thrift.MetricType_TIMER
		m.Value.Timer = genI64(r)
	case 3: // every field set (the encoder writes all four regardless of the type)
		m.Value.MetricType = m3thrift.MetricType(int64(int32(r.U64())))
		m.Value.Count, m.Value.Timer, m.Value.Gauge = genI64(r), genI64(r), math.Float64frombits(r.U64())
	default:
		m.Value.MetricType = m3thrift.MetricType_INVALID
	}
	return m
}
