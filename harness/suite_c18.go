package main

import (
	"errors"
	"fmt"
	"io"
	"math"
	"strconv"
	"strings"
	"sync"
	"time"

	cstatsd "github.com/cactus/go-statsd-client/v5/statsd"
	tally "github.com/uber-go/tally/v4"
	tstatsd "github.com/uber-go/tally/v4/statsd"
)

func init() { register("c18", "C18", "c18", suiteC18) }

// ---------------------------------------------------------------- recording statsd.Statter

type statCall struct {
	kind  string // inc gauge timing other
	name  string
	value int64
	rate  float32
	ntags int
}

func (s statCall) tok() string {
	return fmt.Sprintf("%s:%s:%d:%08x:%d", s.kind, hxs(s.name), s.value, math.Float32bits(s.rate), s.ntags)
}

// recStatter records every call made on the client interface. Methods the reporter has no business
// calling are recorded as kind "other" with the method name. It can be told to return errors: the
// reporter must neither retry nor panic.
type recStatter struct {
	mu    sync.Mutex
	calls []statCall
	fail  bool
}

var errStatter = errors.New("statter refused")

func (r *recStatter) add(kind, name string, v int64, rate float32, tags []cstatsd.Tag) error {
	r.mu.Lock()
	r.calls = append(r.calls, statCall{kind, name, v, rate, len(tags)})
	r.mu.Unlock()
	if r.fail {
		return errStatter
	}
	return nil
}
func (r *recStatter) take() []statCall {
	r.mu.Lock()
	out := r.calls
	r.calls = nil
	r.mu.Unlock()
	return out
}
func (r *recStatter) Inc(n string, v int64, rate float32, t ...cstatsd.Tag) error {
	return r.add("inc", n, v, rate, t)
}
func (r *recStatter) Gauge(n string, v int64, rate float32, t ...cstatsd.Tag) error {
	return r.add("gauge", n, v, rate, t)
}
func (r *recStatter) TimingDuration(n string, d time.Duration, rate float32, t ...cstatsd.Tag) error {
	return r.add("timing", n, int64(d), rate, t)
}
func (r *recStatter) Dec(n string, v int64, rate float32, t ...cstatsd.Tag) error {
	return r.add("other", "Dec", 0, 0, nil)
}
func (r *recStatter) GaugeDelta(n string, v int64, rate float32, t ...cstatsd.Tag) error {
	return r.add("other", "GaugeDelta", 0, 0, nil)
}
func (r *recStatter) Timing(n string, v int64, rate float32, t ...cstatsd.Tag) error {
	return r.add("other", "Timing", 0, 0, nil)
}
func (r *recStatter) Set(n string, v string, rate float32, t ...cstatsd.Tag) error {
	return r.add("other", "Set", 0, 0, nil)
}
func (r *recStatter) SetInt(n string, v int64, rate float32, t ...cstatsd.Tag) error {
	return r.add("other", "SetInt", 0, 0, nil)
}
func (r *recStatter) Raw(n string, v string, rate float32, t ...cstatsd.Tag) error {
	return r.add("other", "Raw", 0, 0, nil)
}
func (r *recStatter) NewSubStatter(p string) cstatsd.SubStatter {
	r.add("other", "NewSubStatter", 0, 0, nil)
	return nil
}
func (r *recStatter) SetPrefix(p string) { r.add("other", "SetPrefix", 0, 0, nil) }
func (r *recStatter) Close() error       { return r.add("other", "Close", 0, 0, nil) }

func callsTok(cs []statCall) string {
	out := make([]string, len(cs))
	for i, c := range cs {
		out[i] = c.tok()
	}
	return joinList(out)
}

// ---------------------------------------------------------------- generators

func c18Name(r *Rng) string {
	switch r.Intn(8) {
	case 0:
		return ""
	case 1:
		return []string{"foo", "foo.bar", "a-b", "x.-1.0-2.0", "h.-infinity-infinity", "-", ".", "µs", "a\nb", "a b", "a:b|c@d#e"}[r.Intn(11)]
	case 2: // any bytes, including NUL, newline, invalid UTF-8
		b := make([]byte, r.Range(1, 24))
		for i := range b {
			b[i] = byte(r.U64())
		}
		return string(b)
	default:
		const al = "abcdefghijklmnopqrstuvwxyz_.-0123456789"
		b := make([]byte, r.Range(1, 16))
		for i := range b {
			b[i] = al[r.Intn(len(al))]
		}
		return string(b)
	}
}

func c18Tags(r *Rng) map[string]string {
	switch r.Intn(4) {
	case 0:
		return nil
	case 1:
		return map[string]string{}
	default:
		m := map[string]string{}
		for i, n := 0, r.Range(1, 4); i < n; i++ {
			m[c18Name(r)] = c18Name(r)
		}
		return m
	}
}

// sample rate: class and value. unset (0), (0,1] mostly, some adversarial ones outside the property's range.
func c18Rate(r *Rng) (float32, string) {
	switch r.Intn(12) {
	case 0, 1, 2:
		return 0, "unset"
	case 3:
		return 1, "one"
	case 4, 5:
		return float32(r.Range(1, 1000)) / 1000, "unit-interval"
	case 6, 7: // any float32 bit pattern in (0, 1]
		return math.Float32frombits(uint32(1 + r.U64()%0x3F800000)), "unit-interval"
	case 8:
		return math.Float32frombits(uint32(1 + r.U64()%0x7FFFFF)), "unit-interval-subnormal"
	case 9:
		return math.Float32frombits(0x80000000), "negative-zero"
	case 10:
		return []float32{2, 1.5, -0.5, -1, float32(math.Inf(1)), math.MaxFloat32}[r.Intn(6)], "outside-unit-interval"
	default:
		return float32(r.Range(1, 99)) / 100, "unit-interval"
	}
}

func c18Prec(r *Rng) uint {
	switch r.Intn(10) {
	case 0, 1:
		return 0
	case 2:
		return uint(r.Range(13, 30))
	default:
		return uint(r.Range(1, 12))
	}
}

func c18Int64(r *Rng) int64 {
	switch r.Intn(5) {
	case 0:
		return []int64{0, 1, -1, math.MaxInt64, math.MinInt64, math.MaxInt64 - 1, math.MinInt64 + 1, 1 << 32, -(1 << 32)}[r.Intn(9)]
	case 1:
		return int64(r.U64())
	case 2:
		return int64(r.Range(-1000, 1000))
	default:
		return int64(r.U64() >> uint(r.Intn(64)))
	}
}

// float for rendering at precision n; returns the class used for coverage and signatures
func c18Float(r *Rng, n uint) (float64, string) {
	sign := 1.0
	if r.Intn(3) == 0 {
		sign = -1
	}
	pow10 := func(k int) float64 { return math.Pow(10, float64(k)) }
	switch r.Intn(16) {
	case 0: // exact tie at digit n+1: odd k / 2^(n+1)
		if n+1 <= 60 {
			k := (r.U64()>>uint(11+r.Intn(50)))<<1 | 1
			return sign * float64(k) / float64(uint64(1)<<(n+1)), "tie"
		}
		fallthrough
	case 1: // neighbours of an exact tie
		if n+1 <= 60 {
			k := (r.U64()>>uint(20+r.Intn(40)))<<1 | 1
			x := float64(k) / float64(uint64(1)<<(n+1))
			if r.Bool() {
				return sign * math.Nextafter(x, math.Inf(1)), "near-tie"
			}
			return sign * math.Nextafter(x, 0), "near-tie"
		}
		fallthrough
	case 2: // dyadic k / 2^j
		return sign * float64(r.U64()>>uint(11+r.Intn(53))) / float64(uint64(1)<<uint(r.Intn(63))), "dyadic"
	case 3: // decimal with a 5 right after the last printed digit (not exactly representable)
		k := r.Range(0, 999999)
		return sign * (float64(k)*10 + 5) / pow10(int(n)+1), "decimal-half"
	case 4: // short decimals
		return sign * float64(r.Range(-99999, 99999)) / pow10(r.Intn(8)), "decimal"
	case 5: // carries: 10^k - 10^-n/2 and neighbours
		x := pow10(r.Intn(8)) - 0.5*pow10(-int(n))
		switch r.Intn(3) {
		case 0:
			x = math.Nextafter(x, math.Inf(1))
		case 1:
			x = math.Nextafter(x, 0)
		}
		return sign * x, "carry"
	case 6: // subnormals
		return sign * math.Float64frombits(1+r.U64()%((1<<52)-1)), "subnormal"
	case 7: // rounds to zero or to the last digit
		return sign * float64(r.Range(1, 20)) / 4 * pow10(-int(n)), "last-digit"
	case 8: // zeros
		return sign * 0, "zero"
	case 9: // any finite bit pattern
		for {
			x := math.Float64frombits(r.U64())
			if !math.IsNaN(x) && !math.IsInf(x, 0) {
				return x, "random-bits"
			}
		}
	case 10: // huge
		switch r.Intn(4) {
		case 0:
			return sign * math.Nextafter(math.MaxFloat64, 0), "huge"
		case 1:
			return sign * math.Ldexp(1, r.Range(53, 1023)), "huge"
		case 2:
			return sign * float64(r.U64()), "huge"
		default:
			return sign * pow10(r.Range(15, 308)), "huge"
		}
	case 11:
		return c03ValuePool[r.Intn(len(c03ValuePool))], "pool"
	case 12: // powers of two, both directions
		return sign * math.Ldexp(1, r.Range(-1074, 60)), "pow2"
	default:
		return sign * float64(r.Range(-100000, 100000)) / 8, "eighths"
	}
}

func c18ValueSpec(r *Rng, prec uint) []float64 {
	if r.Intn(3) == 0 {
		return genValueSpec(r) // the C03 generator as is
	}
	n := r.Range(0, 10)
	out := make([]float64, n)
	for i := range out {
		out[i], _ = c18Float(r, prec)
	}
	return out
}

func effPrec(p uint) uint {
	if p == 0 {
		return 6
	}
	return p
}

// class of a value bound for signatures / coverage
func c18BoundClass(x float64, n uint) string {
	switch {
	case x == math.MaxFloat64 || x == -math.MaxFloat64:
		return "extreme"
	case math.IsNaN(x) || math.IsInf(x, 0):
		return "nonfinite"
	case x == 0:
		return "zero"
	case math.Abs(x) < 0x1p-1022:
		return "subnormal"
	}
	if n+1 <= 60 {
		y := x * float64(uint64(1)<<(n+1)) // exact scaling by a power of two (barring overflow)
		if !math.IsInf(y, 0) && y == math.Trunc(y) && math.Abs(y) < 1<<62 && int64(y)%2 != 0 {
			return "tie"
		}
	}
	return "finite"
}

// ---------------------------------------------------------------- the suite

type c18Rep struct {
	rate   float32
	prec   uint
	st     *recStatter
	rep    tally.StatsReporter
	optTok string
}

func newC18Rep(r *Rng) (*c18Rep, string) {
	rate, rc := c18Rate(r)
	prec := c18Prec(r)
	st := &recStatter{fail: r.Intn(6) == 0}
	rep := tstatsd.NewReporter(st, tstatsd.Options{SampleRate: rate, HistogramBucketNamePrecision: prec})
	return &c18Rep{rate, prec, st, rep, fmt.Sprintf("%08x %d", math.Float32bits(rate), prec)}, rc
}

func (c *Ctx) c18Line(line, sig string, nontrivial bool) {
	key := line
	if i := strings.Index(line, " => "); i >= 0 {
		key = line[:i]
	}
	c.Cov.Eval(key, nontrivial)
	c.Cov.Check(c.Drv, line, sig)
}

func suiteC18(c *Ctx) {
	c.Cov.Rule = "one case = one report call (or one histogram pass / one renderer call) with its options; names of any bytes, tags nil/empty/random, rates unset/-0/(0,1]/outside, precisions 0,1..12,13..30; " +
		"nontrivial = a bucket report or renderer call (stat name rendering exercised), a gauge with a fractional, negative or boundary value, or any report under a non-default rate; distinct by the full request line"
	nDirect := c.N(2500, 25000)
	for i := 0; i < nDirect; i++ {
		c18Direct(c, c.Rng.Fork())
	}
	nScope := c.N(300, 3000)
	for i := 0; i < nScope; i++ {
		c18Scope(c, c.Rng.Fork())
	}
	nRender := c.N(4000, 40000)
	for i := 0; i < nRender; i++ {
		c18Render(c, c.Rng.Fork())
	}
	c18Fixed(c)
}

// direct calls on the reporter
func c18Direct(c *Ctx, r *Rng) {
	rp, rc := newC18Rep(r)
	c.Cov.Hit("rate." + rc)
	c.Cov.Hit("prec." + strconv.Itoa(int(rp.prec)))
	if rp.st.fail {
		c.Cov.Hit("statter.returns-error")
	}
	nonDefault := rc != "unset" && rc != "one"
	name := c18Name(r)
	if strings.ContainsAny(name, "-.") {
		c.Cov.Hit("name.contains-dash-or-dot")
	}
	for k, n := 0, r.Range(1, 6); k < n; k++ {
		tags := c18Tags(r)
		tt := mapHex(tags)
		head := fmt.Sprintf("rep %s ", rp.optTok)
		observe := func(f func()) string {
			if p, v := catch(f); p {
				c.Cov.Fail(Failure{Kind: "crash", Clause: "no-panic", Signature: "reporter-panic", Line: head + hxs(name), Detail: fmt.Sprint(v)})
			}
			return callsTok(rp.st.take())
		}
		switch r.Intn(7) {
		case 0:
			v := c18Int64(r)
			obs := observe(func() { rp.rep.ReportCounter(name, tags, v) })
			c.Cov.Hit("kind.counter")
			c.c18Line(fmt.Sprintf("%sc %s %s %d => %s", head, hxs(name), tt, v, obs), "counter", nonDefault)
		case 1:
			v, cls := c18Gauge(r)
			obs := observe(func() { rp.rep.ReportGauge(name, tags, v) })
			c.Cov.Hit("kind.gauge." + cls)
			sig := "gauge-in-domain"
			if cls == "out-of-domain" {
				sig = "gauge-out-of-domain"
				// what this platform's int64(v) gave outside the domain Go defines (recorded, not judged)
				switch {
				case strings.Contains(obs, fmt.Sprintf(":%d:", int64(math.MinInt64))):
					c.Cov.Hit("kind.gauge.out-of-domain.observed-MinInt64")
				default:
					c.Cov.Hit("kind.gauge.out-of-domain.observed-other")
				}
			}
			c.c18Line(fmt.Sprintf("%sg %s %s %s => %s", head, hxs(name), tt, f64hex(v), obs), sig, nonDefault || (cls != "integer" && cls != "out-of-domain"))
		case 2:
			d := c18Int64(r)
			obs := observe(func() { rp.rep.ReportTimer(name, tags, time.Duration(d)) })
			c.Cov.Hit("kind.timer")
			c.c18Line(fmt.Sprintf("%st %s %s %d => %s", head, hxs(name), tt, d, obs), "timer", nonDefault)
		case 3, 4: // every bound pair of a value spec
			spec := c18ValueSpec(r, effPrec(rp.prec))
			pairs := tally.BucketPairs(tally.ValueBuckets(spec))
			c.Cov.Hit("kind.hist-value.speclen." + lenClass(len(spec)))
			for _, p := range pairs {
				lo, hi := p.LowerBoundValue(), p.UpperBoundValue()
				c18ValueBucket(c, r, rp, head, name, tags, tt, lo, hi, observe)
			}
		case 5: // every bound pair of a duration spec
			spec := genDurSpec(r)
			pairs := tally.BucketPairs(toDurs(spec))
			c.Cov.Hit("kind.hist-duration.speclen." + lenClass(len(spec)))
			for _, p := range pairs {
				c18DurBucket(c, r, rp, head, name, tags, tt, int64(p.LowerBoundDuration()), int64(p.UpperBoundDuration()), observe)
			}
		default: // adversarial: bounds that no histogram produces (unordered, non-finite, both extremes swapped)
			if r.Bool() {
				pick := func() float64 {
					switch r.Intn(6) {
					case 0:
						return []float64{math.NaN(), math.Inf(1), math.Inf(-1), math.MaxFloat64, -math.MaxFloat64}[r.Intn(5)]
					default:
						x, _ := c18Float(r, effPrec(rp.prec))
						return x
					}
				}
				c18ValueBucket(c, r, rp, head, name, tags, tt, pick(), pick(), observe)
			} else {
				c18DurBucket(c, r, rp, head, name, tags, tt, c18Int64(r), c18Int64(r), observe)
			}
			c.Cov.Hit("kind.hist-adversarial")
		}
	}
	// Flush is a no-op on the client; capabilities
	if r.Intn(4) == 0 {
		rp.rep.Flush()
		if cs := rp.st.take(); len(cs) != 0 {
			c.Cov.Fail(Failure{Kind: "violated", Clause: "one-call", Signature: "flush-calls-client", Line: "flush " + rp.optTok, Reply: callsTok(cs)})
		}
		caps := rp.rep.Capabilities()
		b := func(x bool) int {
			if x {
				return 1
			}
			return 0
		}
		c.c18Line(fmt.Sprintf("caps %s => %d %d", rp.optTok, b(caps.Reporting()), b(caps.Tagging())), "capabilities", false)
		if cs := rp.st.take(); len(cs) != 0 {
			c.Cov.Fail(Failure{Kind: "violated", Clause: "one-call", Signature: "capabilities-calls-client", Line: "caps " + rp.optTok, Reply: callsTok(cs)})
		}
	}
}

func c18ValueBucket(c *Ctx, r *Rng, rp *c18Rep, head, name string, tags map[string]string, tt string, lo, hi float64, observe func(func()) string) {
	samples := c18Samples(r)
	obs := observe(func() { rp.rep.ReportHistogramValueSamples(name, tags, nil, lo, hi, samples) })
	n := effPrec(rp.prec)
	cl, ch := c18BoundClass(lo, n), c18BoundClass(hi, n)
	c.Cov.Hit("bound.value." + cl)
	c.Cov.Hit("bound.value." + ch)
	sig := "bucket-value-" + cl
	if cl == "finite" {
		sig = "bucket-value-" + ch
	}
	c.c18Line(fmt.Sprintf("%shv %s %s %s %s %d => %s", head, hxs(name), tt, f64hex(lo), f64hex(hi), samples, obs), sig, true)
}

func c18DurBucket(c *Ctx, r *Rng, rp *c18Rep, head, name string, tags map[string]string, tt string, lo, hi int64, observe func(func()) string) {
	samples := c18Samples(r)
	obs := observe(func() {
		rp.rep.ReportHistogramDurationSamples(name, tags, nil, time.Duration(lo), time.Duration(hi), samples)
	})
	cls := func(d int64) string {
		switch {
		case d == math.MaxInt64 || d == math.MinInt64:
			return "extreme"
		case d == 0:
			return "zero"
		case d < 0:
			return "negative"
		case d < 1e9:
			return "subsecond"
		default:
			return "hms"
		}
	}
	c.Cov.Hit("bound.duration." + cls(lo))
	c.Cov.Hit("bound.duration." + cls(hi))
	sig := "bucket-duration"
	if cls(lo) == "extreme" || cls(hi) == "extreme" {
		sig = "bucket-duration-extreme"
	}
	c.c18Line(fmt.Sprintf("%shd %s %s %d %d %d => %s", head, hxs(name), tt, lo, hi, samples, obs), sig, true)
}

func c18Samples(r *Rng) int64 {
	switch r.Intn(6) {
	case 0:
		return c18Int64(r)
	case 1:
		return 0
	default:
		return int64(r.Range(1, 1000))
	}
}

// gauge values: mostly inside the domain where Go defines int64(v)
func c18Gauge(r *Rng) (float64, string) {
	switch r.Intn(10) {
	case 0:
		return float64(r.Range(-1000, 1000)), "integer"
	case 1:
		return float64(r.Range(-100000, 100000)) / 8, "fraction"
	case 2:
		return -float64(r.Range(1, 999)) / 1000, "negative-fraction-to-zero"
	case 3:
		x := []float64{0, math.Copysign(0, -1), 0.5, -0.5, 0.9999999999999999, -0.9999999999999999, 5e-324, -5e-324}[r.Intn(8)]
		return x, "around-zero"
	case 4: // boundary of the int64 range, inside
		x := []float64{-0x1p63, math.Nextafter(0x1p63, 0), math.Nextafter(-0x1p63, 0), 0x1p62, -0x1p62, 0x1p53 + 1, -(0x1p53 + 2), 0x1p52 + 0.5, -(0x1p52 + 0.5)}[r.Intn(9)]
		return x, "int64-boundary"
	case 5: // outside: not compared for the value
		x := []float64{math.NaN(), math.Inf(1), math.Inf(-1), 0x1p63, math.Nextafter(-0x1p63, math.Inf(-1)), 1e300, -1e300, math.MaxFloat64}[r.Intn(8)]
		return x, "out-of-domain"
	case 6:
		x := float64(int64(r.U64())) + float64(r.Range(0, 7))/8
		if x >= 0x1p63 || x < -0x1p63 {
			return x, "out-of-domain"
		}
		return x, "large"
	case 7:
		x := math.Float64frombits(r.U64())
		if math.IsNaN(x) || math.IsInf(x, 0) || x >= 0x1p63 || x < -0x1p63 {
			return x, "out-of-domain"
		}
		return x, "random-bits"
	default:
		x, _ := c18Float(r, 6)
		if x >= 0x1p63 || x < -0x1p63 {
			return x, "out-of-domain"
		}
		return x, "fraction"
	}
}

// through a real root scope: the same metric operations on a scope with a plain recording reporter
// (which shows what the scope hands to a reporter) and on a scope with the statsd reporter.
func c18Scope(c *Ctx, r *Rng) {
	rp, rc := newC18Rep(r)
	c.Cov.Hit("scope.rate." + rc)
	rec := newRec()
	prefix := ""
	if r.Bool() {
		prefix = c18Name(r)
	}
	tags := c18Tags(r)
	mk := func(rep tally.StatsReporter) (tally.Scope, io.Closer) {
		return tally.VerifNewRootScope(tally.ScopeOptions{Reporter: rep, Prefix: prefix, Tags: tags, OmitCardinalityMetrics: true}, 0, 1)
	}
	sA, clA := mk(rec)
	sB, clB := mk(rp.rep)
	isValue := r.Bool()
	var vb tally.Buckets
	var vspec []float64
	var dspec []int64
	if isValue {
		vspec = c18ValueSpec(r, effPrec(rp.prec))
		vb = tally.ValueBuckets(vspec)
	} else {
		dspec = genDurSpec(r)
		vb = toDurs(dspec)
	}
	names := []string{c18Name(r) + "c", c18Name(r) + "g", c18Name(r) + "t", c18Name(r) + "h"}
	cv, gv, tv := c18Int64(r), float64(r.Range(-100000, 100000))/8, c18Int64(r)
	if cv == 0 {
		cv = 1
	}
	var vs []float64
	var ds []int64
	if isValue {
		vs = valueSamples(r, vspec, r.Range(1, 40))
	} else {
		ds = durSamples(r, dspec, r.Range(1, 40))
	}
	drive := func(s tally.Scope) {
		s.Counter(names[0]).Inc(cv)
		s.Gauge(names[1]).Update(gv)
		s.Timer(names[2]).Record(time.Duration(tv))
		h := s.Histogram(names[3], vb)
		for _, v := range vs {
			if !math.IsNaN(v) { // a NaN sample may or may not be counted (C03); keep both scopes comparable
				h.RecordValue(v)
			}
		}
		for _, d := range ds {
			h.RecordDuration(time.Duration(d))
		}
		tally.VerifReportOnce(s)
	}
	if p, v := catch(func() { drive(sA) }); p {
		c.Cov.Fail(Failure{Kind: "crash", Clause: "no-panic", Signature: "scope-with-recorder-panic", Line: "scope", Detail: fmt.Sprint(v)})
		return
	}
	if p, v := catch(func() { drive(sB) }); p {
		c.Cov.Fail(Failure{Kind: "crash", Clause: "no-panic", Signature: "scope-with-statsd-panic", Line: "scope", Detail: fmt.Sprint(v)})
		return
	}
	evs := rec.log.Take()
	calls := rp.st.take()
	clA.Close()
	clB.Close()
	if extra := rp.st.take(); len(extra) != 0 { // closing an idle scope reports nothing new
		c.Cov.Fail(Failure{Kind: "violated", Clause: "one-call", Signature: "scope-close-calls-client", Line: "scope " + rp.optTok, Reply: callsTok(extra)})
	}
	var mets []Ev
	for _, e := range evs {
		if e.Kind != "flush" {
			mets = append(mets, e)
		}
	}
	if len(mets) != len(calls) {
		c.Cov.Fail(Failure{Kind: "violated", Clause: "one-call", Signature: "scope-path-call-count", Line: fmt.Sprintf("scope %s events=%d", rp.optTok, len(mets)), Reply: callsTok(calls)})
		return
	}
	head := "rep " + rp.optTok + " "
	i := 0
	for i < len(mets) {
		e := mets[i]
		tt := mapHex(e.Tags)
		switch e.Kind {
		case "counter":
			c.c18Line(fmt.Sprintf("%sc %s %s %d => %s", head, hxs(e.Name), tt, e.I, calls[i].tok()), "scope-counter", true)
			i++
		case "gauge":
			c.c18Line(fmt.Sprintf("%sg %s %s %s => %s", head, hxs(e.Name), tt, f64hex(e.F), calls[i].tok()), "scope-gauge", true)
			i++
		case "timer":
			c.c18Line(fmt.Sprintf("%st %s %s %d => %s", head, hxs(e.Name), tt, e.I, calls[i].tok()), "scope-timer", true)
			i++
		case "hval", "hdur": // the run of bucket events of this histogram, in delivery order
			j := i
			var tups []string
			for j < len(mets) && mets[j].Kind == e.Kind && mets[j].Name == e.Name {
				if e.Kind == "hval" {
					tups = append(tups, fmt.Sprintf("%s:%s:%d", f64hex(mets[j].LoF), f64hex(mets[j].HiF), mets[j].I))
				} else {
					tups = append(tups, fmt.Sprintf("%d:%d:%d", int64(mets[j].LoD), int64(mets[j].HiD), mets[j].I))
				}
				j++
			}
			k := "v"
			if e.Kind == "hdur" {
				k = "d"
			}
			c.Cov.HitN("scope.hist-"+k+".buckets-delivered", j-i)
			// distinct names among the delivered buckets (reported in the evidence distribution)
			seen := map[string]bool{}
			for _, cl := range calls[i:j] {
				seen[cl.name] = true
			}
			if len(seen) < j-i {
				c.Cov.Hit("scope.hist-" + k + ".buckets-sharing-a-name-at-this-precision")
			}
			c.c18Line(fmt.Sprintf("hist %s %s %s %s => %s", k, rp.optTok, hxs(e.Name), joinList(tups), callsTok(calls[i:j])), "scope-histogram-"+k, true)
			i = j
		default:
			c.Cov.Fail(Failure{Kind: "bad-op", Clause: "protocol", Signature: "scope-unexpected-event", Line: e.Kind})
			i++
		}
	}
	c.Cov.Traces++
}

// the two renderers themselves (Go's fmt and time packages) against the Lean re-implementation
func c18Render(c *Ctx, r *Rng) {
	if r.Intn(4) == 0 {
		var d int64
		switch r.Intn(6) {
		case 0:
			d = c03DurPool[r.Intn(len(c03DurPool))]
		case 1: // exact unit boundaries and neighbours
			u := []int64{1, 1e3, 1e6, 1e9, 60e9, 3600e9}[r.Intn(6)]
			d = u*int64(r.Range(1, 1000)) + int64(r.Range(-1, 1))
		case 2:
			d = int64(r.U64())
		case 3: // trailing zeros in the fraction
			d = int64(r.Range(1, 999)) * []int64{1, 10, 100, 1e3, 1e4, 1e5, 1e6, 1e7, 1e8, 1e9, 1e10, 1e11, 1e12}[r.Intn(13)]
		default:
			d = int64(r.U64() >> uint(r.Intn(64)))
		}
		if r.Intn(3) == 0 && d != math.MinInt64 {
			d = -d
		}
		c.Cov.Hit("render.duration")
		c.c18Line(fmt.Sprintf("durstr %d => %s", d, hxs(time.Duration(d).String())), "render-duration", true)
		return
	}
	n := uint(r.Range(1, 12))
	if r.Intn(12) == 0 {
		n = uint(r.Range(13, 40))
	}
	x, cls := c18Float(r, n)
	if r.Intn(40) == 0 {
		x, cls = []float64{math.NaN(), math.Inf(1), math.Inf(-1), math.MaxFloat64, -math.MaxFloat64}[r.Intn(5)], "special"
	}
	c.Cov.Hit("render.value." + cls)
	if c18BoundClass(x, n) == "tie" {
		c.Cov.Hit("render.value.exact-tie-at-this-precision")
	}
	c.c18Line(fmt.Sprintf("fmtf %d %s => %s", n, f64hex(x), hxs(fmt.Sprintf("%."+strconv.Itoa(int(n))+"f", x))), "render-value-"+cls, true)
}

// fixed cases: the two examples of the package's own test, the extremes at every precision, every rate class
func c18Fixed(c *Ctx) {
	for p := uint(0); p <= 12; p++ {
		for _, rate := range []float32{0, 1, 0.5, math.Float32frombits(0x80000000)} {
			st := &recStatter{}
			rep := tstatsd.NewReporter(st, tstatsd.Options{SampleRate: rate, HistogramBucketNamePrecision: p})
			opt := fmt.Sprintf("%08x %d", math.Float32bits(rate), p)
			type vp struct{ lo, hi float64 }
			for _, b := range []vp{{-math.MaxFloat64, math.MaxFloat64}, {-math.MaxFloat64, 0}, {0, math.MaxFloat64}, {0, 2.5}, {-2.5, -1.25},
				{math.MaxFloat64, -math.MaxFloat64}, {1.0, 2.0}, {0.125, 0.375}, {math.Copysign(0, -1), 0}} {
				rep.ReportHistogramValueSamples("h", nil, nil, b.lo, b.hi, 3)
				c.c18Line(fmt.Sprintf("rep %s hv %s - %s %s 3 => %s", opt, hxs("h"), f64hex(b.lo), f64hex(b.hi), callsTok(st.take())), "bucket-value-"+c18BoundClass(b.lo, effPrec(p)), true)
			}
			type dp struct{ lo, hi int64 }
			for _, b := range []dp{{math.MinInt64, math.MaxInt64}, {math.MinInt64, 0}, {0, math.MaxInt64}, {0, 1e6}, {1e6, 25e5}, {math.MaxInt64, math.MinInt64},
				{math.MinInt64 + 1, math.MaxInt64 - 1}, {-1, 1}, {3600e9, 3661e9}} {
				rep.ReportHistogramDurationSamples("h", nil, nil, time.Duration(b.lo), time.Duration(b.hi), 3)
				c.c18Line(fmt.Sprintf("rep %s hd %s - %d %d 3 => %s", opt, hxs("h"), b.lo, b.hi, callsTok(st.take())), "bucket-duration-extreme", true)
			}
		}
	}
	for _, d := range []int64{math.MinInt64, math.MaxInt64, 0, 1, -1, 999, 1000, 999999, 1000000, 999999999, 1000000000, 59999999999, 60000000000, 3599999999999, 3600000000000} {
		c.c18Line(fmt.Sprintf("durstr %d => %s", d, hxs(time.Duration(d).String())), "render-duration", true)
	}
}
