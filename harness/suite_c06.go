package main

import (
	"fmt"
	"strconv"
	"strings"
	"sync"
	"unicode/utf8"

	tally "github.com/uber-go/tally/v4"
	"github.com/uber-go/tally/v4/m3"
	"github.com/uber-go/tally/v4/prometheus"
)

func init() { register("c06", "C06", "c06", suiteC06) }

type vcGen struct {
	vc  tally.ValidCharacters
	tok string // "<ranges> <chars>"
}

var c06Runes = []rune{0, 1, ' ', '!', '+', ',', '-', '.', '/', '0', '9', ':', '=', '@', 'A', 'Z', '[', '_', '`', 'a', 'z', '{', 0x7f, 0x80, 0xff, 0x100, 0x7ff, 0x800,
	0xd7ff, 0xe000, 0xfffd, 0xfffe, 0xffff, 0x10000, 0x10ffff, 'é', 'ß', '世', '界', '😀'}

func genRune(r *Rng) rune {
	switch r.Intn(6) {
	case 0:
		return rune(r.Range(0, 0x7f))
	case 1:
		return rune(r.Range(0, 0x10ffff))
	case 2:
		return rune(r.Range(0x20, 0x7e))
	default:
		return c06Runes[r.Intn(len(c06Runes))]
	}
}

func genValidChars(r *Rng) vcGen {
	var vc tally.ValidCharacters
	switch r.Intn(8) {
	case 0:
		vc = m3.DefaultSanitizerOpts.NameCharacters
	case 1:
		vc = prometheus.DefaultSanitizerOpts.KeyCharacters
	case 2: // everything from space up (contains U+FFFD)
		vc = tally.ValidCharacters{Ranges: []tally.SanitizeRange{{0x20, 0x10ffff}}}
	default:
		nr := r.Intn(4)
		for i := 0; i < nr; i++ {
			a, b := genRune(r), genRune(r)
			switch r.Intn(5) {
			case 0: // empty range
				if a < b {
					a, b = b, a
				}
			case 1: // single rune
				b = a
			default:
				if a > b {
					a, b = b, a
				}
			}
			vc.Ranges = append(vc.Ranges, tally.SanitizeRange{a, b})
		}
		nc := r.Intn(5)
		for i := 0; i < nc; i++ {
			vc.Characters = append(vc.Characters, genRune(r))
		}
	}
	rs := make([]string, len(vc.Ranges))
	for i, x := range vc.Ranges {
		rs[i] = fmt.Sprintf("%d:%d", x[0], x[1])
	}
	cs := make([]string, len(vc.Characters))
	for i, x := range vc.Characters {
		cs[i] = strconv.Itoa(int(x))
	}
	return vcGen{vc, joinList(rs) + " " + joinList(cs)}
}

func genRep(r *Rng) rune {
	switch r.Intn(10) {
	case 0:
		return genRune(r)
	case 1:
		return 0xfffd
	case 2:
		return 'é'
	default:
		return '_'
	}
}

// genString: mostly-valid strings around the allowed set, with invalid bytes and multi-byte runes over-represented.
func genString(r *Rng, vc tally.ValidCharacters, maxRunes int) string {
	n := 0
	switch r.Intn(10) {
	case 0:
		n = 0
	case 1:
		n = r.Range(maxRunes/2, maxRunes)
	default:
		n = r.Range(1, 24)
	}
	var b []byte
	for i := 0; i < n; i++ {
		switch r.Intn(12) {
		case 0: // raw invalid byte: continuation bytes, illegal bytes, and LONE LEAD bytes of every length class
			if r.Bool() {
				b = append(b, []byte{0x80, 0xbf, 0xc0, 0xc1, 0xf5, 0xff, 0xe2, 0xf0, 0xef, 0xed, 0xe0, 0xf4, 0xc2, 0xdf}[r.Intn(14)])
			} else {
				b = append(b, byte(r.Range(0x80, 0xff)))
			}
		case 1: // truncated multi-byte sequence of a random rune (incl. U+F000..U+FFFF whose lead byte is 0xEF)
			rn := []rune{'é', '世', '😀', 0xfffd, 0xf000, 0xffff, 0x7ff, 0x800, 0x10ffff}[r.Intn(9)]
			if r.Chance(30) {
				rn = genRune(r)
			}
			enc := utf8.AppendRune(nil, rn)
			if len(enc) > 1 {
				b = append(b, enc[:r.Range(1, len(enc)-1)]...)
			} else {
				b = append(b, 0xef)
			}
		case 2: // surrogate / overlong encodings
			b = append(b, [][]byte{{0xed, 0xa0, 0x80}, {0xc0, 0xaf}, {0xe0, 0x80, 0xaf}, {0xf4, 0x90, 0x80, 0x80}}[r.Intn(4)]...)
		case 3, 4:
			b = utf8.AppendRune(b, genRune(r))
		case 5: // just outside / at the ends of a range
			if len(vc.Ranges) > 0 {
				x := vc.Ranges[r.Intn(len(vc.Ranges))]
				b = utf8.AppendRune(b, []rune{x[0] - 1, x[0], x[1], x[1] + 1}[r.Intn(4)])
				continue
			}
			fallthrough
		default: // an allowed rune if there is one
			if len(vc.Ranges) > 0 && r.Bool() {
				x := vc.Ranges[r.Intn(len(vc.Ranges))]
				if x[0] <= x[1] {
					b = utf8.AppendRune(b, x[0]+rune(r.Intn(int(x[1]-x[0])+1)))
					continue
				}
			}
			if len(vc.Characters) > 0 {
				b = utf8.AppendRune(b, vc.Characters[r.Intn(len(vc.Characters))])
				continue
			}
			b = append(b, byte(r.Range('a', 'z')))
		}
	}
	return string(b)
}

func suiteC06(c *Ctx) {
	c.Cov.Rule = "random SanitizeOptions (empty/single-rune ranges, extra characters, replacement allowed or not, non-scalar replacement) x strings (allowed runes, range end points ±1, multi-byte runes, invalid/truncated/overlong/surrogate bytes, up to 4KiB); nontrivial = the string contains an invalid byte sequence, a multi-byte rune or a disallowed rune; distinct by (options, string). Also idempotence (second application) and 16 goroutines sharing the sanitizer (buffer pool)"
	n := c.N(4000, 60000)
	type job struct{ line, sig, key string }
	for i := 0; i < n; i++ {
		r := c.Rng.Fork()
		g := genValidChars(r)
		rep := genRep(r)
		opts := tally.SanitizeOptions{NameCharacters: g.vc, KeyCharacters: g.vc, ValueCharacters: g.vc, ReplacementCharacter: rep}
		san := tally.NewSanitizer(opts)
		maxRunes := 40
		if i%50 == 0 {
			maxRunes = 1400 // up to ~4KiB
		}
		s := genString(r, g.vc, maxRunes)
		var out string
		switch r.Intn(3) {
		case 0:
			out = san.Name(s)
		case 1:
			out = san.Key(s)
		default:
			out = san.Value(s)
		}
		nontriv := !utf8.ValidString(s) || len(s) != utf8.RuneCountInString(s) || out != s
		if !utf8.ValidString(s) {
			c.Cov.Hit("input.invalid-utf8")
		}
		if out != s {
			c.Cov.Hit("input.changed")
		} else {
			c.Cov.Hit("input.unchanged")
		}
		if len(s) > 1000 {
			c.Cov.Hit("input.long")
		}
		sig := "sanitize"
		if strings.ContainsRune(out, utf8.RuneError) && !utf8.ValidString(s) {
			sig = "sanitize-invalid-input"
		}
		line := fmt.Sprintf("san %s %d %s", g.tok, rep, hxs(s))
		c.Cov.Eval(line, nontriv)
		c.Cov.Check(c.Drv, line+" => "+hxs(out), sig)
		// idempotence on the implementation
		out2 := san.Name(out)
		if out2 != out {
			c.Cov.Fail(Failure{Kind: "violated", Clause: "idempotent", Signature: sig, Line: line, Reply: "second application " + hxs(out2) + " != " + hxs(out)})
		}
		// determinism across sanitizers: the application carves the character lists of two option sets out of ONE list
		// (`allowed[:k]`: the second list has spare capacity that belongs to the first); constructing and using the
		// second sanitizer must not change what the first one does
		if i%25 == 0 {
			base := []rune{'.', '-', '_', '+', ':', 'x', 'é'}
			for a := len(base) - 1; a > 0; a-- { // Fisher-Yates from the case's own PRNG
				b := r.Intn(a + 1)
				base[a], base[b] = base[b], base[a]
			}
			k1 := r.Range(2, len(base))
			k2 := r.Range(0, k1-1)
			list1 := append([]rune(nil), base[:k1]...) // the first sanitizer's list, by value, for the model
			o1 := tally.ValidCharacters{Characters: base[:k1]}
			rep1 := base[r.Intn(k1)]
			s1 := tally.NewSanitizer(tally.SanitizeOptions{NameCharacters: o1, KeyCharacters: o1, ValueCharacters: o1, ReplacementCharacter: rep1})
			in := "ab" + string(base) + "yz" + string(base[:k1])
			before := s1.Name(in)
			o2 := tally.ValidCharacters{Characters: base[:k2]}
			rep2 := []rune{'#', '%', base[k1-1]}[r.Intn(3)] // not among the second list's characters
			s2 := tally.NewSanitizer(tally.SanitizeOptions{NameCharacters: o2, KeyCharacters: o2, ValueCharacters: o2, ReplacementCharacter: rep2})
			s2.Name(in)
			s2.Value(in)
			after := s1.Name(in)
			cs := make([]string, len(list1))
			for j, x := range list1 {
				cs[j] = strconv.Itoa(int(x))
			}
			line2 := fmt.Sprintf("san - %s %d %s", joinList(cs), rep1, hxs(in))
			c.Cov.Hit("options.lists-carved-from-one-slice")
			if after != before {
				c.Cov.Fail(Failure{Kind: "violated", Clause: "deterministic", Signature: "sanitize-changes-after-another-sanitizer-was-built", Line: line2,
					Reply: fmt.Sprintf("Name(%q) = %q before and %q after a second sanitizer was built from allowed[:%d] of the same list (replacement %q)", in, before, after, k2, rep2)})
			} else {
				c.Cov.Check(c.Drv, line2+" => "+hxs(after), "sanitize-shared-list")
			}
		}
		// determinism + buffer pool independence: 16 goroutines sanitize DIFFERENT strings (distinct fill
		// letters and lengths, each needing a replacement so that the pooled buffer is used) and every result is
		// compared with the result computed alone beforehand
		if i%40 == 0 {
			type job struct{ in, want string }
			jobs := make([]job, 16)
			for g := range jobs {
				n := 8 + g*37
				if g%4 == 0 {
					n = 3000 + g*60 // ~4KiB strings keep a buffer busy long enough for a misuse to show
				}
				bs := make([]byte, n)
				for k := range bs {
					bs[k] = byte('a' + g)
				}
				bs[n/2] = 0xff // invalid byte: forces the copy-and-replace path
				if n > 4 {
					bs[1] = 0x01
				}
				jobs[g] = job{in: string(bs)}
			}
			plain := tally.NewSanitizer(tally.SanitizeOptions{
				NameCharacters:       tally.ValidCharacters{Ranges: tally.AlphanumericRange},
				KeyCharacters:        tally.ValidCharacters{Ranges: tally.AlphanumericRange},
				ValueCharacters:      tally.ValidCharacters{Ranges: tally.AlphanumericRange},
				ReplacementCharacter: '_'})
			for g := range jobs {
				jobs[g].want = plain.Name(jobs[g].in)
			}
			var wg sync.WaitGroup
			bad := make(chan string, 16)
			for g := range jobs {
				wg.Add(1)
				go func(j job) {
					defer wg.Done()
					for k := 0; k < 120; k++ {
						var o string
						switch k % 3 {
						case 0:
							o = plain.Name(j.in)
						case 1:
							o = plain.Key(j.in)
						default:
							o = plain.Value(j.in)
						}
						if o != j.want {
							select {
							case bad <- fmt.Sprintf("input %d bytes of %q: got %d bytes starting %q", len(j.in), j.in[:1], len(o), o[:min(8, len(o))]):
							default:
							}
							return
						}
					}
				}(jobs[g])
			}
			wg.Wait()
			close(bad)
			for msg := range bad {
				c.Cov.Fail(Failure{Kind: "violated", Clause: "deterministic-concurrent", Signature: "sanitize-concurrent", Line: "16 goroutines, distinct strings, shared buffer pool", Reply: msg})
			}
			c.Cov.Hit("concurrent.rounds")
		}
	}
	// no-op sanitizer
	noop := tally.NewNoOpSanitizer()
	for i := 0; i < 200; i++ {
		r := c.Rng.Fork()
		s := genString(r, tally.ValidCharacters{}, 60)
		c.Cov.Check(c.Drv, "noop "+hxs(s)+" => "+hxs(noop.Name(s)), "noop")
		c.Cov.Check(c.Drv, "noop "+hxs(s)+" => "+hxs(noop.Value(noop.Key(s))), "noop")
	}
}
