#!/usr/bin/env python3
"""seeded_table.py — regenerates the table of seeded changes in DESIGN.md (between the SEEDED-TABLE markers)
from seeded/*/meta.json."""
import json, os, re, glob
VERIF = os.path.dirname(os.path.dirname(os.path.abspath(__file__)))
rows = []
for mp in sorted(glob.glob(os.path.join(VERIF, "seeded", "*", "meta.json"))):
    m = json.load(open(mp))
    sid = m["id"]
    det = m.get("detected_by", {})
    parts = []
    for chk, v in det.items():
        if v.get("exit") == 1:
            whats = v.get("what") or []
            concrete = [w for w in whats if not w.startswith("proof obligation") and "no-failing-input" not in w and not w.startswith("correspondence") and not w.startswith("suite ")]
            kind = "concrete input" if concrete else "broken obligation / correspondence (no-failing-input-found)"
            first = (concrete or whats or [""])[0]
            parts.append("%s: %s — %s" % (chk, kind, first[:90].replace("|", "/")))
        else:
            parts.append("%s: not caught" % chk)
    needs = (m.get("needs") or m.get("what_it_needs") or "").replace("\n", " ")[:160]
    what = (m.get("what") or "").replace("\n", " ").replace("|", "/")[:200]
    rows.append("| %s | %s | %s | %s | %s | %s |" % (sid, m.get("property"), what, needs.replace("|", "/"), "yes" if m.get("confirmed") else "NO (%s)" % ("existing tests fail" if not m.get("existing_tests_pass") else "demo"), "; ".join(parts)))
table = "| seeded change | property | what it changes | what it needs to manifest | confirmed (compiles, suite passes, demo fails with / passes without) | property's quick check with the change applied |\n|---|---|---|---|---|---|\n" + "\n".join(rows)
p = os.path.join(VERIF, "DESIGN.md")
s = open(p).read()
a, b = "<!-- SEEDED-TABLE-BEGIN -->", "<!-- SEEDED-TABLE-END -->"
if a in s:
    s = re.sub(re.escape(a) + ".*?" + re.escape(b), a + "\n" + table + "\n" + b, s, flags=re.S)
    open(p, "w").write(s)
print(table)
