#!/bin/sh
# usage: evalmuts.sh <slot> <sid:prop:dir>...   — evaluates seeded changes in a private copy of /verif
slot=$1; shift
export GOFLAGS=-mod=mod GOPROXY=off GOSUMDB=off GOTOOLCHAIN=local
cp=/root/ev$slot
rm -rf $cp; mkdir -p $cp
rsync -a --exclude .git --exclude 'replays/*' /verif/ $cp/
for item in "$@"; do
  sid=$(echo $item | cut -d: -f1); prop=$(echo $item | cut -d: -f2); dir=$(echo $item | cut -d: -f3); extra=$(echo $item | cut -d: -f4)
  if [ -n "$extra" ]; then
    python3 $cp/tools/eval_mutant.py $sid $prop $dir/patch.diff $dir/demo_test.go --checks $extra > /root/runlogs/eval_$sid.log 2>&1
  else
    python3 $cp/tools/eval_mutant.py $sid $prop $dir/patch.diff $dir/demo_test.go > /root/runlogs/eval_$sid.log 2>&1
  fi
  mkdir -p /verif/seeded/$sid
  cp $cp/seeded/$sid/* /verif/seeded/$sid/
  [ -f $dir/notes.md ] && cp $dir/notes.md /verif/seeded/$sid/notes.md
  tail -4 /root/runlogs/eval_$sid.log
done
rm -rf $cp
