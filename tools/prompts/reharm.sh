#!/bin/sh
# usage: reharm.sh <slot> <id>...  — re-runs stored harmless changes against the CURRENT checks (own property only); logs outcome, copies nothing back
slot=$1; shift
export GOFLAGS=-mod=mod GOPROXY=off GOSUMDB=off GOTOOLCHAIN=local
cp=/root/rh$slot
rm -rf $cp; mkdir -p $cp
rsync -a --exclude .git --exclude 'replays/*' /verif/ $cp/
for sid in "$@"; do
  prop=$(python3 -c "import json;print(json.load(open('/verif/harmless/$sid/meta.json'))['property'])")
  python3 $cp/tools/eval_harmless.py $sid $prop /verif/harmless/$sid/patch.diff > /root/runlogs/reh_$sid.log 2>&1
  tail -1 /root/runlogs/reh_$sid.log
done
rm -rf $cp
