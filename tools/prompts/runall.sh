#!/bin/bash
# runall.sh <tier> <seed> : all 20 checks in sequence, summary to /root/runlogs/all_<tier>_<seed>.log
cd /verif
export GOFLAGS=-mod=mod GOPROXY=off GOSUMDB=off GOTOOLCHAIN=local VERIF_SEED=${2:-1}
L=/root/runlogs/all_$1_${2:-1}.log; : > $L
for p in C01 C02 C03 C04 C05 C06 C07 C08 C09 C10 C11 C12 C13 C14 C15 C16 C17 C18 C19 C20; do
  ./check $p $1 > /root/runlogs/$p.$1.out 2>&1; rc=$?
  echo "$p rc=$rc $(grep -E '^(VIOLATION|KNOWN-FINDING|C[0-9]+ (quick|thorough):)' /root/runlogs/$p.$1.out | tr '\n' ' ' | cut -c1-400)" >> $L
done
echo DONE >> $L
