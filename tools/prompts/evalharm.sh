#!/bin/sh
# usage: evalharm.sh <slot> <id:prop:dir[:checks]>...   — evaluates harmless changes (dir holds patch.diff, notes.md) in a private copy of /verif
slot=$1; shift
export GOFLAGS=-mod=mod GOPROXY=off GOSUMDB=off GOTOOLCHAIN=local
cp=/root/ev$slot
rm -rf $cp; mkdir -p $cp
rsync -a --exclude .git --exclude 'replays/*' /verif/ $cp/
for item in "$@"; do
  sid=$(echo $item | cut -d: -f1); prop=$(echo $item | cut -d: -f2); dir=$(echo $item | cut -d: -f3); extra=$(echo $item | cut -d: -f4)
  if [ -n "$extra" ]; then
    python3 $cp/tools/eval_harmless.py $sid $prop $dir/patch.diff --checks $extra > /root/runlogs/evalh_$sid.log 2>&1
  else
    python3 $cp/tools/eval_harmless.py $sid $prop $dir/patch.diff > /root/runlogs/evalh_$sid.log 2>&1
  fi
  mkdir -p /verif/harmless/$sid
  cp $cp/harmless/$sid/* /verif/harmless/$sid/
  tail -1 /root/runlogs/evalh_$sid.log
done
rm -rf $cp
