#!/usr/bin/env python3
"""eval_harmless.py <id> <property> <patch.diff> [--checks C01,C07] [--tier quick]

Development tool (not a registered check).  A *harmless* change is a refactoring / optimisation of the code a
property is anchored in that keeps the property.  This script confirms that the change compiles (with and without
-tags verif) and that the repository's own tests pass, then runs the property's registered check against a scratch
worktree with the change applied (VERIF_REPO) and classifies the outcome:

  quiet         exit 0: nothing the check relies on was touched, or the differential and the facts still agree
  no-input      exit 1, every VIOLATION line ends in no-failing-input-found: a frozen body / tie fact / model
                correspondence broke, the search found no failing input (the behaviour the brief prescribes for a
                rewrite that can no longer be shown to keep the property)
  FALSE-ALARM   exit 1 with a concrete VIOLATION line: the machinery accuses code that keeps the property; this has
                to be corrected in the machinery (DESIGN 10.6)

Records everything under /verif/harmless/<id>/ (patch.diff, notes.md if present next to the patch, meta.json).
"""
import json, os, re, shutil, subprocess, sys, time

VERIF = os.path.dirname(os.path.dirname(os.path.abspath(__file__)))
ENV = dict(os.environ, GOFLAGS="-mod=mod", GOPROXY="off", GOSUMDB="off", GOTOOLCHAIN="local")


def sh(cmd, cwd=None, timeout=1800):
    p = subprocess.run(cmd, cwd=cwd, env=ENV, shell=isinstance(cmd, str), stdout=subprocess.PIPE, stderr=subprocess.STDOUT, text=True, errors="replace", timeout=timeout)
    return p.returncode, p.stdout


def main():
    sid, prop, patch = sys.argv[1:4]
    checks, tier = [prop], "quick"
    args = sys.argv[4:]
    for i, a in enumerate(args):
        if a == "--checks":
            checks = args[i + 1].split(",")
        if a == "--tier":
            tier = args[i + 1]
    meta = {"id": sid, "property": prop, "ran": []}
    wt = "/tmp/mutcheck/h_" + sid
    sh("git -C /repo worktree remove --force %s" % wt)
    shutil.rmtree(wt, ignore_errors=True)
    os.makedirs("/tmp/mutcheck", exist_ok=True)
    rc, out = sh("git -C /repo worktree add -q --detach %s HEAD" % wt)
    assert rc == 0, out
    try:
        rc, out = sh("git apply --whitespace=nowarn %s" % os.path.abspath(patch), cwd=wt)
        if rc != 0:
            print("patch does not apply:", out)
            sys.exit(3)
        rcb, outb = sh("go build ./... && go build -tags verif ./...", cwd=wt)
        meta["builds"] = rcb == 0
        fails = None
        for _ in range(3):
            rct, outt = sh("go test -vet=off -count=1 -timeout 20m ./... 2>&1 | grep -v 'no test files'", cwd=wt, timeout=1500)
            f = [l for l in outt.splitlines() if l.startswith("FAIL") or l.startswith("--- FAIL") or "panic:" in l]
            fails = f if fails is None else [l for l in fails if l in f]
            if not fails:
                break
        meta["existing_tests_pass"] = not fails
        meta["existing_tests_failures"] = fails[:6]
        detected = {}
        for c in checks:
            t0 = time.time()
            env = dict(ENV, VERIF_REPO=wt)
            p = subprocess.run([os.path.join(VERIF, "check"), c, tier], cwd=VERIF, env=env, stdout=subprocess.PIPE, stderr=subprocess.STDOUT, text=True, errors="replace", timeout=3600)
            lines = [l for l in p.stdout.splitlines() if l.startswith("VIOLATION") or l.startswith("KNOWN-FINDING") or l.startswith(c + " ")]
            viol = [l for l in lines if l.startswith("VIOLATION")]
            if p.returncode == 0 and not viol:
                cls = "quiet"
            elif viol and all(l.rstrip().endswith("no-failing-input-found") for l in viol):
                cls = "no-input"
            else:
                cls = "FALSE-ALARM"
            detected[c] = {"exit": p.returncode, "class": cls, "lines": lines[:8], "wall_s": round(time.time() - t0, 1)}
            for l in viol:
                m = re.search(r"replay=(\S+)", l)
                if m and os.path.exists(m.group(1)):
                    try:
                        rp = json.load(open(m.group(1)))
                        detected[c].setdefault("what", []).append(rp.get("what", "")[:400])
                        if cls == "FALSE-ALARM":
                            shutil.copy(m.group(1), "/root/runlogs/falsealarm_%s_%s.json" % (sid, os.path.basename(m.group(1))))
                    except Exception:
                        pass
            meta["ran"].append("./check %s %s (change applied to a scratch worktree via VERIF_REPO) -> exit %d, %s" % (c, tier, p.returncode, cls))
        meta["outcome"] = detected
    finally:
        sh("git -C /repo worktree remove --force %s" % wt)
        shutil.rmtree(wt, ignore_errors=True)
    d = os.path.join(VERIF, "harmless", sid)
    os.makedirs(d, exist_ok=True)
    if os.path.abspath(patch) != os.path.join(d, "patch.diff"):
        shutil.copy(patch, os.path.join(d, "patch.diff"))
    notes = os.path.join(os.path.dirname(os.path.abspath(patch)), "notes.md")
    if os.path.exists(notes) and os.path.abspath(notes) != os.path.join(d, "notes.md"):
        shutil.copy(notes, os.path.join(d, "notes.md"))
    json.dump(meta, open(os.path.join(d, "meta.json"), "w"), indent=1)
    print(json.dumps({"id": sid, "builds": meta.get("builds"), "tests": meta.get("existing_tests_pass"), "outcome": {c: v["class"] for c, v in meta.get("outcome", {}).items()}}))


if __name__ == "__main__":
    main()
