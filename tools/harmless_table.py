#!/usr/bin/env python3
"""Regenerates the table between <!-- HARMLESS-TABLE-BEGIN/END --> in DESIGN.md from harmless/*/meta.json."""
import json, os, glob, re
VERIF = os.path.dirname(os.path.dirname(os.path.abspath(__file__)))
rows = []
for mp in sorted(glob.glob(os.path.join(VERIF, "harmless", "*", "meta.json"))):
    m = json.load(open(mp))
    d = os.path.dirname(mp)
    what = ""
    np_ = os.path.join(d, "what.txt")
    if os.path.exists(np_):
        what = open(np_).read().strip()
    out = "; ".join("%s: %s" % (c, v["class"]) for c, v in m.get("outcome", {}).items())
    rows.append("| %s | %s | %s | %s | %s |" % (m["id"], m["property"], what, "yes" if m.get("builds") and m.get("existing_tests_pass") else "NO", out))
table = "| change | property | what it does | builds, repository tests pass | outcome of the property's quick check(s) |\n|---|---|---|---|---|\n" + "\n".join(rows)
p = os.path.join(VERIF, "DESIGN.md")
s = open(p).read()
if "<!-- HARMLESS-TABLE-BEGIN -->" in s:
    s = re.sub(r"<!-- HARMLESS-TABLE-BEGIN -->.*<!-- HARMLESS-TABLE-END -->", "<!-- HARMLESS-TABLE-BEGIN -->\n" + table + "\n<!-- HARMLESS-TABLE-END -->", s, flags=re.S)
    open(p, "w").write(s)
print(table)
