#!/usr/bin/env python3
"""eval_mutant.py <seed-id> <property> <patch.diff> <demo_test.go> [--checks C01,C07] [--tier quick]

Confirms a seeded change independently (scratch worktree: compiles with and without -tags verif, the
repository's own tests pass, the demonstration fails with the change and passes without it), then applies it
to /repo, runs the registered checks of the property (and any extra ones), undoes it, and records everything
under /verif/seeded/<seed-id>/ (patch.diff, demo, meta.json).  Never leaves /repo modified.
"""
import json, os, re, shutil, subprocess, sys, time

VERIF = os.path.dirname(os.path.dirname(os.path.abspath(__file__)))
ENV = dict(os.environ, GOFLAGS="-mod=mod", GOPROXY="off", GOSUMDB="off", GOTOOLCHAIN="local")


def sh(cmd, cwd=None, timeout=1800):
    p = subprocess.run(cmd, cwd=cwd, env=ENV, shell=isinstance(cmd, str), stdout=subprocess.PIPE, stderr=subprocess.STDOUT, text=True, errors="replace", timeout=timeout)
    return p.returncode, p.stdout


def main():
    sid, prop, patch, demo = sys.argv[1:5]
    checks = [prop]
    tier = "quick"
    args = sys.argv[5:]
    for i, a in enumerate(args):
        if a == "--checks":
            checks = args[i + 1].split(",")
        if a == "--tier":
            tier = args[i + 1]
    meta = {"id": sid, "property": prop, "ran": []}
    rc, out = sh("git -C /repo status --porcelain")
    if out.strip():
        print("/repo is not clean; refusing"); sys.exit(2)
    wt = "/tmp/mutcheck/wt_" + sid
    sh("git -C /repo worktree remove --force %s" % wt)
    shutil.rmtree(wt, ignore_errors=True)
    os.makedirs("/tmp/mutcheck", exist_ok=True)
    rc, out = sh("git -C /repo worktree add -q --detach %s HEAD" % wt)
    assert rc == 0, out
    try:
        demo_src = open(demo).read()
        pkg = re.search(r"^package\s+(\w+)", demo_src, re.M).group(1)
        pkgdir = {"tally": ".", "tally_test": ".", "m3": "m3", "prometheus": "prometheus", "multi": "multi", "statsd": "statsd",
                  "thriftudp": "m3/thriftudp", "v2": "m3/thrift/v2", "customtransport": "m3/customtransports", "cache": "internal/cache", "identity": "internal/identity", "instrument": "instrument", "main": None}.get(pkg, ".")
        tests = re.findall(r"^func (Test\w+)\(", demo_src, re.M)
        run_re = "^(" + "|".join(tests) + ")$" if tests else "."
        demo_dst = os.path.join(wt, pkgdir or ".", "zz_seeded_demo_test.go")

        def run_demo():
            shutil.copy(demo, demo_dst)
            rc, out = sh("go test -tags verif -vet=off -count=1 -run '%s' ./%s" % (run_re, pkgdir or "."), cwd=wt, timeout=900)
            os.remove(demo_dst)
            return rc, out[-1500:]

        # without the change
        rc0, out0 = run_demo()
        meta["demo_without_change"] = {"rc": rc0, "tail": out0[-400:]}
        # with the change
        rc, out = sh("git apply --whitespace=nowarn %s" % os.path.abspath(patch), cwd=wt)
        if rc != 0:
            print("patch does not apply:", out); meta["error"] = "patch does not apply: " + out[-300:]
            raise SystemExit(3)
        rcb, outb = sh("go build ./... && go build -tags verif ./...", cwd=wt)
        meta["builds"] = rcb == 0
        rct, outt = sh("go test -vet=off -count=1 -timeout 20m ./... 2>&1 | grep -v 'no test files'", cwd=wt, timeout=1500)
        fails = [l for l in outt.splitlines() if l.startswith("FAIL") or l.startswith("--- FAIL") or "panic:" in l]
        if fails:
            # the repository's own TestVerifyCachedTaggedScopesAlloc (an allocation count) fails now and then under
            # machine load on the pristine tree too: a failure counts only if it repeats in two further runs
            meta["existing_tests_first_run_failures"] = fails[:6]
            again = []
            for _ in range(2):
                rct, outt2 = sh("go test -vet=off -count=1 -timeout 20m ./... 2>&1 | grep -v 'no test files'", cwd=wt, timeout=1500)
                again.append([l for l in outt2.splitlines() if l.startswith("FAIL") or l.startswith("--- FAIL") or "panic:" in l])
            fails = [l for l in again[0] if l in again[1]]
        meta["existing_tests_pass"] = not fails
        meta["existing_tests_tail"] = outt[-600:]
        rc1, out1 = run_demo()
        meta["demo_with_change"] = {"rc": rc1, "tail": out1[-600:]}
        meta["confirmed"] = bool(meta["builds"] and meta["existing_tests_pass"] and rc0 == 0 and rc1 != 0)
    finally:
        sh("git -C /repo worktree remove --force %s" % wt)
        shutil.rmtree(wt, ignore_errors=True)
    # run the registered checks against a scratch worktree with the change applied (VERIF_REPO); --in-repo applies it
    # to /repo itself instead (git -C /repo apply …; checks; git -C /repo checkout -- .)
    detected = {}
    in_repo = "--in-repo" in sys.argv
    wt2 = "/tmp/mutcheck/run_" + sid
    if in_repo:
        rc, out = sh("git -C /repo apply --whitespace=nowarn %s" % os.path.abspath(patch))
        target = "/repo"
    else:
        sh("git -C /repo worktree remove --force %s" % wt2)
        shutil.rmtree(wt2, ignore_errors=True)
        rc, out = sh("git -C /repo worktree add -q --detach %s HEAD" % wt2)
        if rc == 0:
            rc, out = sh("git apply --whitespace=nowarn %s" % os.path.abspath(patch), cwd=wt2)
        target = wt2
    if rc != 0:
        meta["error"] = "patch does not apply: " + out[-300:]
    else:
        try:
            for c in checks:
                t0 = time.time()
                env = dict(ENV)
                if not in_repo:
                    env["VERIF_REPO"] = target
                p = subprocess.run([os.path.join(VERIF, "check"), c, tier], cwd=VERIF, env=env, stdout=subprocess.PIPE, stderr=subprocess.STDOUT, text=True, errors="replace", timeout=3600)
                rc, out = p.returncode, p.stdout
                lines = [l for l in out.splitlines() if l.startswith("VIOLATION") or l.startswith("KNOWN-FINDING") or l.startswith(c + " ")]
                detected[c] = {"exit": rc, "lines": lines[:8], "wall_s": round(time.time() - t0, 1)}
                # keep the first replay's description for the record
                for l in lines:
                    m = re.search(r"replay=(\S+)", l)
                    if m and os.path.exists(m.group(1)):
                        try:
                            rp = json.load(open(m.group(1)))
                            detected[c].setdefault("what", []).append(rp.get("what", "")[:200])
                        except Exception:
                            pass
                meta["ran"].append("./check %s %s  (change applied to %s) -> exit %d" % (c, tier, "/repo" if in_repo else "a scratch worktree via VERIF_REPO", rc))
        finally:
            if in_repo:
                sh("git -C /repo checkout -- .")
            else:
                sh("git -C /repo worktree remove --force %s" % wt2)
                shutil.rmtree(wt2, ignore_errors=True)
    meta["detected_by"] = detected
    meta["caught"] = any(v["exit"] == 1 for v in detected.values())
    d = os.path.join(VERIF, "seeded", sid)
    os.makedirs(d, exist_ok=True)
    shutil.copy(patch, os.path.join(d, "patch.diff"))
    shutil.copy(demo, os.path.join(d, "demo_test.go"))
    old = {}
    mp = os.path.join(d, "meta.json")
    if os.path.exists(mp):
        old = json.load(open(mp))
    old.update(meta)
    json.dump(old, open(mp, "w"), indent=1)
    print(json.dumps({k: meta.get(k) for k in ("id", "confirmed", "caught", "builds", "existing_tests_pass")}, indent=None))
    for c, v in detected.items():
        print(" ", c, "exit", v["exit"], v["lines"][:3])


if __name__ == "__main__":
    main()
