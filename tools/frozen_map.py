"""Which complete function bodies (facts `body_<pkg>_<recv>_<func>` regenerated from /repo by factgen) the hand-written
Lean model of each property mirrors.  tools/gen_tie_frozen.py freezes their current text in
TallyProofs/Tie/CxxFrozen.lean; an edit of any of them in /repo then breaks that tie."""
T = "body_tally_"
FROZEN = {
    "C01": [T + x for x in ["counter_Inc", "counter_value", "counter_report", "counter_cachedReport", "counter_snapshot", "_newCounter",
                            "scope_Counter", "scope_counter", "scope_report", "scope_cachedReport", "histogram_report", "histogram_cachedReport"]],
    "C02": [T + x for x in ["gauge_Update", "gauge_value", "gauge_report", "gauge_cachedReport", "gauge_snapshot", "_newGauge", "scope_Gauge", "scope_gauge"]],
    "C03": [T + x for x in ["_BucketPairs", "_newBucketPair", "_copyAndSortValues", "_copyAndSortDurations", "histogram_RecordValue", "histogram_RecordDuration",
                            "histogram_RecordStopwatch", "_newHistogram", "_newBucketStorage", "bucketCache_Get", "_bucketsEqual", "_getBucketsIdentity",
                            "_valueLowerBound", "_durationLowerBound", "ValueBuckets_Less", "DurationBuckets_Less", "ValueBuckets_Swap", "DurationBuckets_Swap",
                            "ValueBuckets_Len", "DurationBuckets_Len", "bucketPair_LowerBoundValue", "bucketPair_UpperBoundValue",
                            "bucketPair_LowerBoundDuration", "bucketPair_UpperBoundDuration", "scope_Histogram", "scope_histogram"]],
    "C04": [T + x for x in ["scope_Tagged", "scope_SubScope", "scope_subscope", "scope_fullyQualifiedName", "scope_copyAndSanitizeMap", "_mergeRightTags",
                            "_newRootScope", "_NewRootScope", "_NewTestScope", "_newScopeRegistryWithShardCount", "scopeRegistry_Subscope", "scopeRegistry_lockedLookup"]],
    "C05": [T + x for x in ["_KeyForStringMap", "_KeyForPrefixedStringMap", "_keyForPrefixedStringMaps", "_keyForPrefixedStringMapsAsKey", "_appendKeyEscaped",
                            "_insertionSort", "scopeRegistry_Subscope", "scopeRegistry_lockedLookup", "_newScopeRegistryWithShardCount"]],
    "C06": [T + x for x in ["ValidCharacters_sanitizeFn", "_NewSanitizer", "_NewNoOpSanitizer", "_NoOpSanitizeFn", "sanitizer_Name", "sanitizer_Key", "sanitizer_Value",
                            "_getSanitizeBuffer", "_putSanitizeBuffer", "_newScopeRegistryWithShardCount", "scopeRegistry_reportInternalMetrics",
                            "scopeRegistry_ForEachScope"]],
    "C07": [T + x for x in ["scopeRegistry_Report", "scopeRegistry_CachedReport", "scopeRegistry_Subscope", "scopeRegistry_removeWithRLock", "scopeRegistry_lockedLookup",
                            "scope_Close", "scope_clearMetrics", "scope_report", "scope_cachedReport"]],
    "C08": [T + x for x in ["scope_Close", "scope_reportLoop", "scope_reportLoopRun", "scope_reportRegistry", "scopeRegistry_purge", "scopeRegistry_Report",
                            "scopeRegistry_CachedReport", "_newRootScope"]],
    "C09": [T + x for x in ["scope_Counter", "scope_counter", "scope_Gauge", "scope_gauge", "scope_Timer", "scope_timer", "scope_Histogram", "scope_histogram",
                            "scopeRegistry_Subscope", "scopeRegistry_lockedLookup", "scopeRegistry_removeWithRLock", "bucketCache_Get", "_bucketsEqual",
                            "_newBucketStorage", "scope_clearMetrics", "_mergeRightTags", "scope_copyAndSanitizeMap"]],
    "C10": [T + x for x in ["timer_Record", "timer_Start", "timer_RecordStopwatch", "timer_snapshot", "_newTimer", "Stopwatch_Stop", "_NewStopwatch", "histogram_Start",
                            "histogram_RecordStopwatch", "scope_Timer", "scope_timer", "timerNoReporterSink_ReportTimer"]] + ["body_instrument__NewCall", "body_instrument_call_Exec"],
    "C11": [T + x for x in ["scope_Snapshot", "_newSnapshot", "counter_snapshot", "gauge_snapshot", "timer_snapshot", "histogram_snapshotValues", "histogram_snapshotDurations",
                            "snapshot_Counters", "snapshot_Gauges", "snapshot_Timers", "snapshot_Histograms", "scopeRegistry_ForEachScope"]],
    "C12": ["body_m3_" + x for x in ["reporter_calculateSize", "reporter_calculateBucketSize", "reporter_process", "reporter_flush", "_NewReporter", "reporter_newMetric",
                                     "reporter_AllocateHistogram", "reporter_allocateCounter", "reporter_valueBucketString", "reporter_durationBucketString", "_ndigits"]]
           + ["body_thriftudp_" + x for x in ["TUDPTransport_Write", "TUDPTransport_WriteByte", "TUDPTransport_WriteString", "TUDPTransport_Flush",
                                              "TMultiUDPTransport_Write", "TMultiUDPTransport_Flush"]]
           + ["calcTransport_Write", "calcTransport_WriteByte", "calcTransport_WriteString", "calcTransport_GetCount", "calcTransport_ResetCount"],
    "C13": ["body_m3_" + x for x in ["reporter_reportCopyMetric", "reporter_process", "reporter_flush", "reporter_convertTags", "reporter_newMetric", "reporter_AllocateCounter",
                                     "reporter_AllocateGauge", "reporter_AllocateTimer", "reporter_AllocateHistogram", "reporter_allocateCounter", "cachedMetric_ReportCount",
                                     "cachedMetric_ReportGauge", "cachedMetric_ReportTimer", "cachedHistogram_ValueBucket", "cachedHistogram_DurationBucket",
                                     "reportSamplesFunc_ReportSamples", "reporter_timeLoop", "reporter_reportInternalMetrics", "_tagsMatch",
                                     "resourcePool_getMetricSlice", "resourcePool_releaseMetricSlice", "resourcePool_getMetricTagSlice", "resourcePool_releaseMetricTagSlice", "_newResourcePool"]]
           + ["body_cache_" + x for x in ["TagCache_Get", "TagCache_Set", "_TagMapKey", "StringInterner_Intern"]],
    "C14": ["body_m3_" + x for x in ["reporter_reportCopyMetric", "reporter_Flush", "reporter_Close", "reporter_process", "reporter_timeLoop", "reporter_flush"]],
    "C15": ["body_thriftudp_" + x for x in ["TUDPTransport_Write", "TUDPTransport_WriteByte", "TUDPTransport_WriteString", "TUDPTransport_Flush", "TUDPTransport_Close",
                                            "TUDPTransport_IsOpen", "TUDPTransport_Open", "TMultiUDPTransport_Write", "TMultiUDPTransport_Flush", "TMultiUDPTransport_Close",
                                            "TMultiUDPTransport_IsOpen", "TMultiUDPTransport_Open"]] + ["body_m3_reporter_flush"],
    "C17": ["body_prometheus_" + x for x in ["reporter_AllocateCounter", "reporter_AllocateGauge", "reporter_AllocateTimer", "reporter_AllocateHistogram", "reporter_counterVec",
                                             "reporter_gaugeVec", "reporter_summaryVec", "reporter_histogramVec", "reporter_timerConfig", "_canonicalMetricID", "_keysFromMap",
                                             "cachedMetric_ReportCount", "cachedMetric_ReportGauge", "cachedMetric_ReportTimer", "cachedMetric_reportTimerHistogram",
                                             "cachedMetric_reportTimerSummary", "cachedMetric_ValueBucket", "cachedMetric_DurationBucket", "cachedHistogramBucket_ReportSamples",
                                             "noopMetric_ReportCount", "noopMetric_ReportGauge", "noopMetric_ReportTimer", "noopMetric_ValueBucket", "noopMetric_DurationBucket",
                                             "noopMetric_ReportSamples", "_NewReporter"]],
    "C20": [T + x for x in ["_LinearValueBuckets", "_LinearDurationBuckets", "_ExponentialValueBuckets", "_ExponentialDurationBuckets", "_MustMakeLinearValueBuckets",
                            "_MustMakeLinearDurationBuckets", "_MustMakeExponentialValueBuckets", "_MustMakeExponentialDurationBuckets", "bucketCache_Get", "_bucketsEqual",
                            "_getBucketsIdentity", "_newBucketStorage", "_newBucketCache", "_BucketPairs"]]
           + ["body_identity_" + x for x in ["_Durations", "_Float64s", "_NewAccumulator", "Accumulator_AddUint64", "Accumulator_Value"]],
}
# accessors, conversions and constructors the models take for granted (added after a sweep over every body that no
# property froze: a change to any of them is at least reported, see DESIGN 10.2 "Frozen bodies")
_EXTRA = {
    "C03": [T + x for x in ["ValueBuckets_AsValues", "ValueBuckets_AsDurations", "DurationBuckets_AsValues", "DurationBuckets_AsDurations"]],
    "C20": [T + x for x in ["ValueBuckets_AsValues", "ValueBuckets_AsDurations", "DurationBuckets_AsValues", "DurationBuckets_AsDurations"]],
    "C04": [T + x for x in ["_NewRootScopeWithDefaultInterval", "scope_Capabilities"]],
    "C08": [T + x for x in ["_NewRootScope", "_NewRootScopeWithDefaultInterval", "scope_Tagged", "scope_SubScope", "scope_subscope"]],
    "C10": [T + x for x in ["timerNoReporterSink_ReportCounter", "timerNoReporterSink_ReportGauge", "timerNoReporterSink_Flush", "timerNoReporterSink_Capabilities"]],
    "C11": [T + x for x in ["counterSnapshot_Name", "counterSnapshot_Tags", "counterSnapshot_Value", "gaugeSnapshot_Name", "gaugeSnapshot_Tags", "gaugeSnapshot_Value",
                            "timerSnapshot_Name", "timerSnapshot_Tags", "timerSnapshot_Values", "histogramSnapshot_Name", "histogramSnapshot_Tags",
                            "histogramSnapshot_Values", "histogramSnapshot_Durations", "_NewTestScope"]],
    "C13": ["body_m3_" + x for x in ["Configuration_NewReporter", "resourcePool_getProto", "resourcePool_releaseProto", "_NewReporter"]]
           + ["body_cache_" + x for x in ["_NewTagCache", "_NewStringInterner"]] + ["body_identity_" + x for x in ["_StringStringMap", "Accumulator_AddString"]],
    "C14": ["body_m3_" + x for x in ["noopMetric_ReportCount", "noopMetric_ReportGauge", "noopMetric_ReportTimer", "noopMetric_ReportSamples"]],
    "C15": ["body_thriftudp_" + x for x in ["_NewTUDPClientTransport", "_NewTMultiUDPClientTransport", "TUDPTransport_Conn"]],
    "C16": ["body_m3__NewReporter", "body_m3_reporter_calculateSize", "body_m3_reporter_calculateBucketSize", "body_m3_resourcePool_getProto", "body_m3__newResourcePool"],
    "C17": ["body_prometheus_" + x for x in ["reporter_RegisterCounter", "reporter_RegisterGauge", "reporter_RegisterTimer", "Configuration_NewReporter",
                                             "_DefaultHistogramBuckets", "_DefaultSummaryObjectives", "reporter_Flush"]],
}
for _k, _v in _EXTRA.items():
    FROZEN.setdefault(_k, [])
    for _x in _v:
        if _x not in FROZEN[_k]:
            FROZEN[_k].append(_x)
PREFIXES = {"C16": ["thriftCompact_", "thriftBinary_", "m3v2_", "calcTransport_"]}
