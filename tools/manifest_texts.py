HOOK_COMMITS = ["306ffcc"]
NOT_APPLICABLE = {}
TEXTS = {
    "C03": {
        "technique": "Lean 4 theorems over a model of BucketPairs/RecordValue/RecordDuration (sort.Search loop proved least-index) + differential correspondence and oracle against the real histogram",
        "text": "Tiling and placement are proved in Lean for every spec and every float64/int64 sample (tiling_value/_duration, placement_value/_duration, nonfinite_value, placeKey_in_range): unbounded, by induction on the binary-search loop. The model is tied to the code by regenerated facts (comparison operators, sentinels, clamp guard) and by a differential run of BucketPairs, the cached-bucket path and the plain reporter path against the Lean model, with the theorem's own predicates (Spec.C03.placed/tiles/…) evaluated on what the implementation delivered.",
        "note": "Trusted: Lean kernel; axioms propext/Classical.choice/Quot.sound; factgen; harness; sort.Sort modelled as a sorting permutation (merge sort in the executable model); IEEE comparison modelled on bit patterns. Bucket-count conservation across concurrent passes is C01's theorem; here it is checked by the oracle only.",
    },
    "C06": {
        "technique": "Lean 4 theorems over a byte-exact model of Go UTF-8 decoding/encoding and the sanitizeFn loop + differential correspondence and oracle against NewSanitizer",
        "text": "valid_unchanged, idempotent, rune_count_preserved, output_allowed_or_replacement (no invalid byte passes through), concat_closed and spec_holds (the oracle predicate accepts the model's output) are proved for every option set, every replacement rune and every byte string (unbounded; UTF-8 round-trip lemmas by case analysis and omega). Tie: regenerated comparison operators of sanitizeFn + differential on NewSanitizer(opts).Name/Key/Value with the oracle applied to the implementation's output; scope-level delivery of sanitized strings is exercised by the scope suites of C04.",
        "note": "Trusted: Lean kernel; axioms propext/Classical.choice/Quot.sound; factgen; harness. clause (vii) 'every string reaching a reporter is a sanitizer output' is checked end to end by the scope suites (oracle), proved only as closure under concatenation (concat_closed).",
    },
}
