HOOK_COMMITS = ["306ffcc"]
NOT_APPLICABLE = {}
TEXTS = {
    "C03": {
        "technique": "Lean 4 theorems over a model of BucketPairs/RecordValue/RecordDuration (sort.Search loop proved least-index) + differential correspondence and oracle against the real histogram",
        "text": "Tiling and placement are proved in Lean for every spec and every float64/int64 sample (tiling_value/_duration, placement_value/_duration, nonfinite_value, placeKey_in_range): unbounded, by induction on the binary-search loop. The model is tied to the code by regenerated facts (comparison operators, sentinels, clamp guard) and by a differential run of BucketPairs, the cached-bucket path and the plain reporter path against the Lean model, with the theorem's own predicates (Spec.C03.placed/tiles/…) evaluated on what the implementation delivered.",
        "note": "Trusted: Lean kernel; axioms propext/Classical.choice/Quot.sound; factgen; harness; sort.Sort modelled as a sorting permutation (merge sort in the executable model); IEEE comparison modelled on bit patterns. Bucket-count conservation across concurrent passes is C01's theorem; here it is checked by the oracle only.",
    },
}
