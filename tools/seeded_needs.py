#!/usr/bin/env python3
"""seeded_needs.py — writes the hand-written 'what' / 'needs' descriptions into seeded/<id>/meta.json
(what the change does, what it needs in order to manifest)."""
import json, os
VERIF = os.path.dirname(os.path.dirname(os.path.abspath(__file__)))
D = {
 "c01-closed-hit-not-reported": ("Subscope's write-locked re-lookup drops a closed, uncollected scope found under the sanitized key without reporting it", "a sanitizer, two raw spellings of one identity in one shard, unreported values on the closed scope, re-acquire through the other spelling before any pass"),
 "c01-load-then-sub": ("counter.value() = load, then atomic add of -delta instead of one swap", "two report passes over one counter overlapping between the load and the add (double delivery, later a negative delta)"),
 "c01-load-then-add": ("same idea as c01-load-then-sub, written independently in round 2", "two overlapping passes over the same counter"),
 "c01-counter-no-recheck": ("scope.Counter loses the re-check under the write lock", "two goroutines making the first use of one counter name at the same time; plain reporter or test scope (the orphaned counter is never reported)"),
 "c02-load-before-swap": ("gauge report loads the value before swapping the updated flag", "an Update between the load and the swap of one visit: the flag is consumed, the old value delivered, the new one never"),
 "c02-skip-equal-update": ("Update returns early when the same value is already pending", "bit patterns that compare equal as floats but differ (0 / -0), or NaN payloads; the last update's bits are not what is delivered"),
 "c02-load-then-store-flag": ("gauge report loads the flag and resets it with a store after the reporter call", "an Update, or a second pass, while a delivery is in progress (lost update / double delivery)"),
 "c02-gauge-no-recheck": ("scope.Gauge loses the re-check under the write lock", "two goroutines making the first use of one gauge name at the same time"),
 "c03-cache-shape-only": ("bucket cache hit check compares only kind and length", "two different bucket sets of the same length whose identities collide (commutative sum), under one root"),
 "c03-lastidx-fastpath": ("RecordValue/RecordDuration try the previous sample's bucket first with an inclusive lower bound", "a two-step history: a sample in bucket k+1, then a sample exactly equal to bound k"),
 "c03-cache-recheck-no-equality": ("bucket cache double-checked lookup returns the entry found under the write lock without bucketsEqual", "two different colliding specifications in one scope tree"),
 "c03-lastidx-inclusive-lower": ("same idea as c03-lastidx-fastpath, written independently in round 2", "sample on a bound right after a sample in the bucket above"),
 "c04-sanitize-after-merge": ("Subscope sanitizes the merged tag set instead of the argument only", "a sanitizer that changes a key; re-tagging under another spelling of a parent's key at depth >= 2"),
 "c04-skip-tag-copy": ("the defensive copy of the caller's tag map is skipped without a sanitizer", "no sanitizer, a parent with an empty tag set, and the caller mutating or re-using the map afterwards"),
 "c04-skip-copy-no-sanitizer": ("same idea as c04-skip-tag-copy, written independently in round 2", "no sanitizer, empty parent tags, caller mutates the map later"),
 "c04-key-escape-fastpath-backslash": ("key escaping skips strings without + , = (forgetting the escape byte itself)", "tag strings containing a backslash next to a delimiter: two tag sets share a key, scope and delivered tags"),
 "c05-escape-fastpath": ("key escaping skips strings without delimiters (forgetting the escape byte)", "strings whose only special byte is a backslash"),
 "c05-root-one-shard": ("the root is registered in shard 0 only", "more than one shard, a derivation ending in the root's own identity, root key not hashing to shard 0"),
 "c05-root-only-shard0": ("same idea as c05-root-one-shard, written independently in round 2", "several shards and Tagged(nil) / Tagged(root tags) on the root"),
 "c05-empty-override-value": ("multi-map key writer treats an empty-string value as 'not present'", "overriding an existing non-empty tag with the empty string"),
 "c06-buffer-after-put": ("sanitizer returns its pooled buffer before reading the result", "concurrent sanitize calls that need a replacement (buffer reuse race)"),
 "c06-lead-byte-check": ("the width-1 decode-error test is replaced by a look at the lead byte 0xEF", "a truncated 3-byte sequence starting with 0xEF while U+FFFD is allowed"),
 "c06-replacement-width-one": ("sanitizeFn copies runs of valid characters and advances by one byte after a replacement", "a multi-byte rune that is not allowed (continuation bytes leak into the output)"),
 "c06-explicit-separator-raw": ("an explicitly configured separator is used unsanitized", "sanitize options + an explicit separator containing a character not allowed in names + a prefix or subscope"),
 "c07-cached-reread-closed": ("CachedReport re-reads the closed flag after reporting the scope", "Close of the subscope landing while the pass is inside that scope's report, with values recorded after its swap"),
 "c07-remove-if-closed": ("removeWithRLock removes whatever closed scope is registered under the key", "a closed successor registered under the key (sanitizer aliasing, or re-acquire + close during the lock hand-over)"),
 "c07-closed-during-own-report": ("Report/CachedReport also collect a scope whose flag is set after its report", "Close landing during the scope's own report"),
 "c07-remove-closed-successor": ("removal also drops a closed successor registered under the key", "sanitizer aliasing in one shard, or a re-acquire+close inside the removal's lock hand-over"),
 "c08-mutex-instead-of-join": ("Close serialises with passes through a mutex instead of waiting for the loop goroutine", "Close returning while the loop goroutine is between select and its pass: a pass / flush after Close returned, goroutine still alive"),
 "c08-pass-drops-on-rootclosed": ("a pass collects every scope it visits once the root's flag is set", "Close called while a periodic pass is inside a slow reporter call, with values recorded after that scope's swap"),
 "c08-closed-read-after-report-root": ("the pass reads the closed flag after reporting again", "Close landing while a periodic pass is blocked in a reporter call on the root's own metrics"),
 "c08-reopen-on-reporter-error": ("Close resets the closed flag when the reporter's Close fails", "a closable reporter whose Close returns an error, then a second Close (panics: close of closed channel; live subscopes again)"),
 "c09-alloc-outside-lock": ("Histogram allocates in the cached reporter before taking the write lock", "two goroutines missing the probe for one new histogram name at the same time (Allocate called twice)"),
 "c09-counter-recheck-rawname": ("Counter's re-check under the write lock uses the raw name", "a sanitizer that changes the name and two racing first users"),
 "c09-hist-alloc-before-lock": ("same idea as c09-alloc-outside-lock, written independently in round 2", "racing first use of one histogram with a cached reporter"),
 "c09-subscope-recheck-skipped": ("Subscope skips the write-locked re-check when the probe had found a closed scope", "a closed, uncollected child and two goroutines re-acquiring it, both past the probe before either takes the write lock"),
 "c10-plain-wins-over-cached": ("timer prefers the plain reporter over the cached handle", "a scope that has both reporters configured"),
 "c10-timer-no-recheck": ("scope.Timer loses the re-check under the write lock", "racing first use of one timer name; on a test scope the losing handle's values never show up"),
 "c10-timer-no-recheck-2": ("same idea as c10-timer-no-recheck, written independently in round 2", "racing first use of one timer name"),
 "c10-exec-swallows-canceled": ("instrument Call.Exec treats context.Canceled as success and returns nil", "the instrumented function returning context.Canceled or an error wrapping it"),
 "c11-cache-no-equality": ("bucket cache returns a hit without comparing the specifications", "colliding bucket specifications under one test scope; snapshot shows foreign bounds, Record may panic"),
 "c11-timer-snapshot-alias": ("timer snapshot shares the scope's buffer", "modifying a snapshot's Values() in place, then taking another snapshot"),
 "c11-timer-snapshot-shares-buffer": ("same idea as c11-timer-snapshot-alias, written independently in round 2", "modify an earlier snapshot, snapshot again"),
 "c11-snapshot-key-concat": ("snapshot keys are built by concatenating the unescaped name with the tag key", "metric names or prefixes containing + , = or a backslash (lookup misses, two metrics collapse)"),
 "c12-host-tag-after-measure": ("the host common tag is appended after the common-tag size was measured", "IncludeHost without an explicit host tag and packets filled to the budget (Binary overflows at once)"),
 "c12-bucket-size-before-tag": ("histogram bucket size is computed before the bucket tag value is set", "histogram traffic filling packets"),
 "c13-hist-tags-recycled-early": ("process() builds the outgoing metric before the flush-if-full block", "a size-triggered flush whose overflowing item is a histogram sample followed by more samples (recycled tag slice overwritten)"),
 "c13-timestamp-at-batching": ("the timestamp is taken when the metric is batched, not when it is reported", "a backlog in the queue while the cached clock advances"),
 "c14-flush-checks-done-first": ("Flush checks done before registering as pending", "Close completing between Flush's check and its send (send on closed channel)"),
 "c14-write-error-into-own-queue": ("the batching goroutine reports write errors through its own queue", "a send error while the queue is full: the only consumer blocks on its own queue, Close never returns"),
 "c15-multi-write-stops-at-error": ("TMultiUDPTransport.Write returns at the first refusing destination", ">= 2 destinations, an oversize message, then Flush: the later destinations transmit the truncated prefix"),
 "c15-single-oversize-no-overflow-flag": ("a single chunk larger than MaxLength is refused without setting the overflow flag", "an accepted prefix followed by one Write > 65000 bytes, then Flush or the next message"),
 "c16-list-header-15": ("compact list header packs size 15 into the nibble", "a list of exactly 15 elements (metrics, tags or common tags)"),
 "c16-string-64-fastpath": ("compact WriteString fast path through the 64-byte scratch buffer is off by one", "a string of exactly 64 bytes"),
 "c17-duration-seconds-ulp": ("DurationBucket replays the bound computed with Duration.Seconds()", "a duration bound >= 1s for which Seconds() differs from float64(d)/1e9 by one ulp (e.g. 1.14s)"),
 "c17-register-outside-lock": ("counterVec / gaugeVec register outside the reporter lock without re-check", "two first users of one family at the same time (duplicate registration, series dropped)"),
 "c18-bound-float32": ("bucket bounds are formatted with bitSize 32", "bounds >= 2^24, high precisions, or close bounds that collapse after rounding to float32"),
 "c18-negative-gauge-two-calls": ("a negative gauge is sent as Gauge(0) followed by Gauge(v)", "a gauge value <= -1"),
 "c19-capabilities-short-circuit": ("Capabilities() stops at the first child lacking either capability", ">= 2 children where an earlier one lacks only one capability and a later one only the other"),
 "c19-bucket-handles-share-storage": ("bucket handles of one multi histogram share one backing array", "resolving >= 2 buckets of one cached histogram before reporting on the earlier handle"),
 "c20-cache-lost-race": ("bucket cache double-checked lookup without equality re-check after the lock upgrade", "two different colliding sets created at the same time, both missing the read-locked lookup"),
 "c20-kind-mismatch-equal": ("bucketsEqual no longer distinguishes value from duration specifications", "a value and a duration specification with colliding identities and equal numeric bounds"),
 "c20-cache-recheck-no-equality": ("same idea as c20-cache-lost-race, written independently in round 2", "concurrent creation of two colliding sets"),
 "c20-equal-via-durations": ("bucketsEqual compares AsDurations() of both sides", "value bounds >= 9.22e9 or < 1e-9 (overflow / truncation) or a value vs duration set, with colliding identities"),
 "c12-calc-reset-after-unlock": ("calculateSize releases the calc lock before resetting the shared counting transport (two defers in the wrong order)", ">= 2 goroutines allocating metrics on one reporter at the same time: a handle is charged less than its wire size"),
 "c12-keep-buffer-on-refused": ("TUDPTransport.Flush keeps the buffer when the send fails with ECONNREFUSED", "the collector's port closed briefly: one send refused, the next datagram carries two batches (filed under C12; it is a C15 clause and C15's suite is part of C12's check)"),
 "c12-bucket-placeholder-count-zero": ("AllocateHistogram builds the bucket counter once by hand without the maximal Count placeholder", "Compact protocol and a bucket reporting >= 8192 samples in one interval: the charged size is no longer an upper bound"),
 "c13-flush-after-every-error": ("the reporter flushes the transport after every failed emit, not only after INVALID_DATA", "several destinations, one of them down: the healthy one receives empty datagrams"),
 "c14-close-toggle": ("Close uses done.Toggle() instead of CAS(false,true)", "a second Close re-opens the gate: later reports / Flush send on closed channels, a third Close closes a closed channel"),
 "c14-write-error-into-own-queue-2": ("same idea as c14-write-error-into-own-queue, written independently in round 2", "a send error while the queue is full"),
 "c15-multi-error-wrapped": ("TMultiUDPTransport wraps the first error with fmt.Errorf", ">= 2 destinations and one oversize batch: the reporter no longer recognises INVALID_DATA, never discards, every later batch is refused"),
 "c15-close-flag-after-conn-close": ("TUDPTransport.Close sets the closed flag only after conn.Close succeeded", "a socket already dead (closed through Conn()): Close keeps failing, IsOpen stays true, writes buffer silently"),
 "c16-calc-counts-runes": ("TCalcTransport.WriteString counts runes instead of bytes", "a name / tag containing valid multi-byte UTF-8"),
 "c17-canonical-id-underscore": ("canonicalMetricID joins name and sorted keys with '_'", "names / keys whose underscores line up: replication_lag{dc_zone} vs replication_lag{dc,zone}: cache hit with the wrong vector, With() panics"),
 "c17-countervec-outside-lock": ("same idea as c17-register-outside-lock (counter only), written independently in round 2", "two first users of one counter family at the same time"),
 "c18-shared-name-buffer": ("bucket stat names are built in a scratch buffer shared by the reporter", "two goroutines reporting histograms through one reporter at the same time"),
 "c18-negative-gauge-zeroed-first": ("same idea as c18-negative-gauge-two-calls, written independently in round 2", "a gauge value <= -1"),
 "c19-flush-coalesced": ("overlapping Flush calls on a multi reporter are coalesced by a CAS flag", "a Flush arriving while another Flush is inside a child: it calls no child at all"),
 "c19-capabilities-break-on-nonreporting": ("Capabilities() stops at the first non-reporting child", "a non-reporting but tagging child before a non-tagging child"),
}
n = 0
for sid, (what, needs) in D.items():
    mp = os.path.join(VERIF, "seeded", sid, "meta.json")
    if not os.path.exists(mp):
        continue
    m = json.load(open(mp))
    m["what"] = what
    m["needs"] = needs
    json.dump(m, open(mp, "w"), indent=1)
    n += 1
print("updated", n)
missing = [d for d in os.listdir(os.path.join(VERIF, "seeded")) if d not in D]
print("no description:", missing)
