#!/usr/bin/env python3
"""trymut.py <patch.diff | seeded-id> <suite> [<suite>...] [--seed N] [--tier quick|thorough]

Development helper (not a registered check): applies a seeded change to a scratch worktree of /repo, builds the
harness against it and runs the named suites with the Lean driver that is already built (facts of the unchanged
tree), printing each suite's failures.  Removes the worktree afterwards.  Never touches /repo's working tree.
"""
import json, os, shutil, subprocess, sys, tempfile

VERIF = os.path.dirname(os.path.dirname(os.path.abspath(__file__)))
ENV = dict(os.environ, GOFLAGS="-mod=mod", GOPROXY="off", GOSUMDB="off", GOTOOLCHAIN="local", CGO_ENABLED="0")


def sh(cmd, cwd=None, timeout=1800):
    p = subprocess.run(cmd, cwd=cwd, env=ENV, shell=isinstance(cmd, str), stdout=subprocess.PIPE, stderr=subprocess.STDOUT, text=True, errors="replace", timeout=timeout)
    return p.returncode, p.stdout


def main():
    args = sys.argv[1:]
    seed, tier = "1", "quick"
    pos = []
    i = 0
    while i < len(args):
        if args[i] == "--seed":
            seed = args[i + 1]; i += 2
        elif args[i] == "--tier":
            tier = args[i + 1]; i += 2
        else:
            pos.append(args[i]); i += 1
    patch = pos[0]
    if patch != "none" and not os.path.exists(patch):
        patch = os.path.join(VERIF, "seeded", patch, "patch.diff")
    suites = pos[1:]
    tmp = tempfile.mkdtemp(prefix="trymut-")
    wt = os.path.join(tmp, "wt")
    try:
        rc, out = sh("git -C /repo worktree add -q --detach %s HEAD" % wt)
        assert rc == 0, out
        if patch != "none":
            rc, out = sh("git apply --whitespace=nowarn %s" % os.path.abspath(patch), cwd=wt)
            assert rc == 0, out
        h = os.path.join(tmp, "harness")
        shutil.copytree(os.path.join(VERIF, "harness"), h)
        gm = open(os.path.join(h, "go.mod")).read().replace("=> /repo", "=> " + wt)
        open(os.path.join(h, "go.mod"), "w").write(gm)
        shutil.copyfile(os.path.join(wt, "go.sum"), os.path.join(h, "go.sum"))
        hbin = os.path.join(tmp, "harness.bin")
        rc, out = sh(["go", "build", "-tags", "verif", "-o", hbin, "."], cwd=h)
        if rc != 0:
            print("harness build failed:\n" + out[-3000:]); sys.exit(2)
        for s in suites:
            cov = os.path.join(tmp, "cov.json")
            env = dict(ENV, TALLYDRV=os.path.join(VERIF, "lean", ".lake", "build", "bin", "tallydrv"), VERIF_HARNESS_DIR=h)
            p = subprocess.run([hbin, "-seed", seed, "-tier", tier, "-out", cov, s], cwd=VERIF, env=env, stdout=subprocess.PIPE, stderr=subprocess.STDOUT, text=True, errors="replace", timeout=3000)
            print("== suite %s rc=%d" % (s, p.returncode))
            if p.returncode not in (0, 1):
                print(p.stdout[:1800]); print("   […]")
            print(p.stdout[-2500:])
            if os.path.exists(cov):
                d = json.load(open(cov))
                print("   distribution:", {k: v for k, v in d.get("distribution", {}).items() if k.startswith("failure")})
                if os.environ.get("TRYMUT_KEEP"):
                    shutil.copyfile(cov, os.path.join(os.environ["TRYMUT_KEEP"], "cov_%s.json" % s))
                os.remove(cov)
    finally:
        sh("git -C /repo worktree remove --force %s" % wt)
        shutil.rmtree(tmp, ignore_errors=True)


if __name__ == "__main__":
    main()
