# property id -> configuration used by check.py
COMMON_ASSUME = [
    "Go runtime: sync/atomic operations are sequentially consistent; RWMutex, WaitGroup and channels behave as documented",
    "the harness observes the implementation only through recording reporters / sinks and the verif-tagged hooks",
]
PROPS = {
    "C03": {
        "suites": ["c03", "scope-c04", "c20cache", "histpass", "histlock", "allocfault"],
        "assumptions": COMMON_ASSUME + [
            "sort.Sort returns a permutation sorted by Less (modelled by merge sort; theorems hold for the sorted permutation)",
            "float64 comparison is IEEE-754 (modelled on bit patterns through a sign-magnitude key)",
        ],
        "trusted_base": ["sort.Search is modelled by its binary-search loop (proved to return the least index)"],
    },
    "C06": {
        "suites": ["c06", "scope-c04"],
        "assumptions": COMMON_ASSUME + [
            "Go's utf8 decoding (range over string) and bytes.Buffer.WriteRune are re-implemented in Lean (Tally/Model/Utf8.lean) and compared byte for byte through the differential",
            "a replacement rune that is not a Unicode scalar value is written as U+FFFD (lemma encodeRune; the oracle uses normRep)",
        ],
        "trusted_base": ["sync.Pool buffer recycling is not modelled; its independence is exercised by 16 concurrent goroutines per 40th case"],
    },
    "C01": {
        "suites": ["c01", "c01race", "scope-c07seq", "scopeseq", "histpass", "histlock", "c08sched", "allocfault", "c09sub"],
        "assumptions": COMMON_ASSUME + [
            "a report pass reaches a counter only through counter.report / cachedReport / histogram.report (tie facts), so 'visit' = swap then optional reporter call",
            "lifting from one cell to 'per name and tags': a pass visits each registered counter once (C04/C07 cover registration and naming)",
        ],
        "trusted_base": ["cooperative scheduler on the verif yield hooks (harness/sched.go): exactly one registered goroutine runs between two hooks"],
        "timeout": {"quick": 300, "thorough": 3000},
    },
    "C02": {
        "suites": ["c02", "c02race", "c02stale", "gaugeseq", "scope-c05", "allocfault"],
        "assumptions": COMMON_ASSUME + [
            "one updating goroutine per gauge (the property's quantifier); reading the value and calling the reporter are separate steps of the model (the recording reporter's entry is a schedule point of the correspondence check); sync.Mutex gives mutual exclusion between the visits of one gauge (repair D13)",
        ],
        "trusted_base": ["cooperative scheduler on the verif yield hooks (harness/sched.go)"],
        "timeout": {"quick": 300, "thorough": 3000},
    },
    "C19": {
        "suites": ["c19", "c19conc"],
        "assumptions": COMMON_ASSUME + [
            "the children do not panic, do not call back into the multi reporter and hand out one fresh handle per allocation (recording children; handles are numbered by allocation order per child)",
            "`for … range` over a slice visits the elements in index order, once each (Go spec); float64 / int64 / string / map arguments are passed unchanged by an interface method call",
            "one goroutine: the property is about call histories, the sequence numbers come from one atomic counter shared by the children",
            "Capabilities() of a child is a pure query: the multi reporter may ask each child several times (it asks up to twice), which is not counted as a forwarded call",
        ],
        "trusted_base": [
            "the whole-body facts of multi/reporter.go (signature + every statement of the 2 constructors, 21 methods and 5 type declarations) extracted by factgen; the reading of these bodies as `fan` (one loop over the children in order) is by inspection",
        ],
        "timeout": {"quick": 300, "thorough": 1500},
    },
    "C05": {
        "suites": ["scope-c05", "c09sub"],
        "assumptions": COMMON_ASSUME + [
            "a Go map is an association list with distinct keys enumerated in arbitrary order (key_order_independent quantifies over the order)",
            "the registry shard of a request is a function of its raw key (maphash with a per-root seed); the harness observes it through a shim and the model takes it as an input",
            "same-scope guarantee is judged only for derivations through inputs the sanitizer leaves unchanged (as the property states); with changed inputs and several shards the implementation may create a second object of one identity, which the model follows",
        ],
        "trusted_base": ["Model.Scope is tied to scope.go / scope_registry.go by the differential on random programs only (no structural facts beyond the key writer)"],
    },
    "C20": {
        "suites": ["c20ctor", "c20cache"],
        "assumptions": COMMON_ASSUME + [
            "float64 + and * are IEEE-754 binary64 round-to-nearest-even and Go does not fuse x*y+z (amd64, GOAMD64=v1); in the theorems they are arbitrary functions on bit patterns, in the differential they are Lean's native Float on the same machine; NaN payloads are not compared",
            "float64 -> int64 conversion is exact truncation for results that fit; ExponentialDurationBuckets is compared only on arguments whose element-producing products stay within +-2^62 (outside the int64 range Go leaves the conversion implementation-defined)",
            "sort.Sort returns a permutation sorted by Less (merge sort in the executable model; bounds are compared through the numeric key, so -0 = +0)",
            "RWMutex gives mutual exclusion: the read-locked probe and the write-locked build-and-store of bucketCache.Get are atomic steps of the concurrent model",
            "a bucket slice is not written by its owner WHILE a Histogram() call that received it is running (afterwards it may be reused at will: the cache keeps a private copy since repair D16)",
        ],
        "trusted_base": [
            "the identity hash is internal (internal/identity): the model's formula is tied by extracted constants and return expressions and cross-checked against the harness's own rendering, not against the function itself; cache_transparent holds for every identity function",
            "concurrent histories run on free schedules (8 goroutines released together); all interleavings are covered by the theorem, not by enumeration",
        ],
    },
    "C18": {
        "suites": ["c18", "c18conc"],
        "assumptions": [
            "the harness observes the StatsD reporter only through a recording fake of the client interface statsd.Statter (github.com/cactus/go-statsd-client/v5): what the real client then puts on the wire is outside this property",
            "fmt.Sprintf(\"%.Nf\") and time.Duration.String are re-implemented exactly in Lean on integers (correctly rounded half-even decimal of the float64 bit pattern; Go's fmtFrac/fmtInt algorithm) and compared byte for byte with the Go runtime's own output on every run; the theorems are about the re-implementation",
            "Go's int64(v) for a float64 v is defined only for finite v whose truncation fits an int64; the gauge value is compared exactly only on that domain (NaN, +-Inf and |v| >= 2^63 are generated but judged only for call count, kind, name and rate)",
            "value bucket bounds are finite (C03's precondition); NaN/+-Inf bounds are generated as an adversarial stream and compared with the model (NaN, +Inf, -Inf texts) but the spec demands only the bound shape for them",
            "the sample rate is a float32 carried as its bit pattern; 'unset' is the float32 comparison SampleRate == 0, so -0 also means unset",
            "precisions 0..30 are generated (the property quantifies over 0 meaning default and 1..12); the model and theorems cover every precision N >= 1",
        ],
        "trusted_base": [
            "recording statsd.Statter in the harness (12 methods; any method other than Inc/Gauge/TimingDuration is recorded as kind 'other' and rejected by the spec)",
            "tally.BucketPairs (C03) supplies the bound pairs of random bucket specs; the through-scope path compares a scope with a plain recording reporter against a scope with the StatsD reporter",
        ],
    },
    "C16": {
        "suites": ["c16", "c12", "c12conc"],
        "assumptions": COMMON_ASSUME + [
            "the struct decoders of the model are strict (fields in writer order with the declared wire types); they accept what the Go writers produce, which is all the round-trip claim needs",
        ],
        "trusted_base": ["vendored thrift compact/binary protocol writers and the generated ttypes.go are modelled by hand (Tally/Model/Thrift.lean) and tied by byte-for-byte differential only"],
    },
    "C07": {
        "suites": ["c07lock", "c07conc", "c07alias", "scopeseq", "scope-c07seq", "c09sub", "allocfault"],
        "assumptions": COMMON_ASSUME + [
            "Model.Registry models one shard and one counter per scope (counters of one scope do not interact); keys are raw spellings with an arbitrary idempotent sanitizer on keys as a parameter, a scope is registered under its sanitized key and under the raw keys that asked for it, exactly as registry.Subscope does; raw and sanitized key of one request live in the same shard in the code (the shard is chosen by the raw key), several shards are covered sequentially by Model.Scope",
            "lock-protected regions without a schedule point are single atomic steps; Go's RWMutex gives mutual exclusion and no lock is taken recursively",
            "the order in which a pass walks a shard (Go map iteration) is observed, not predicted",
        ],
        "trusted_base": ["cooperative scheduler on the verif yield hooks; the model supplies which threads can run without blocking"],
        "timeout": {"quick": 400, "thorough": 3600},
    },
    "C08": {
        "suites": ["c08conc", "c08sched", "c08lock", "c08slow", "scopeseq", "allocfault"],
        "assumptions": COMMON_ASSUME + [
            "'the reporting goroutine has ended' is observed by a goroutine dump after Close returned",
            "a second Close call that overlaps the first returns nil before the first has finished (limitation D5b, theorem concurrent_close_returns_early); the barrier is claimed for the winning caller",
            "the order in which a pass visits the registered scopes (Go map iteration) is an input of Model.RootClose: the theorems hold for every order, the lock-step suite observes the real order of every pass and hands it to the model; the root scope itself carries no metrics in c08lock (it is registered in every shard and would be visited once per shard)",
        ],
        "trusted_base": ["cooperative scheduler adopting the real report-loop goroutine at its first hook; free-running stress with a 20-200us ticker"],
        "timeout": {"quick": 400, "thorough": 3600},
    },
    "C09": {
        "suites": ["c09", "c09sub", "c20cache", "scope-c07seq", "allocfault", "allocpanic", "histpass", "histlock", "c09rw", "racescope"],
        "assumptions": COMMON_ASSUME + [
            "data-race freedom in the sense of the Go memory model is not expressible in the interleaving model; it is supported by -race runs only",
            "a parked thread holds no lock between the read-locked probe and the write lock (tie facts)",
        ],
        "trusted_base": ["cooperative scheduler on the verif yield hooks"],
    },
    "C15": {
        "suites": ["c15", "c15e2e"],
        "timeout": {"quick": 120, "thorough": 900},
        "assumptions": COMMON_ASSUME + [
            "a UDP socket is a datagram sink: one conn.Write is one datagram or an error; loopback delivers in order and (up to 65507 bytes) whole; the socket's behaviour per send is an input oracle of the model (delivered / send error / sent but nobody listens)",
            "errors are compared as classes (nil, not-open, too-large, send-error, other); thrift.INVALID_DATA and thrift.NOT_OPEN are the same TTransportException type id (1), so the two are told apart by message",
            "the model follows the repaired code (D9: a refused write marks the message incomplete until the next Flush, which discards it; the multi transport writes and flushes every destination and returns the first error; the reporter flushes once after an emit that failed on a write)",
            "through TMultiUDPTransport the property is judged strictly at every destination until a socket fault is injected, afterwards only datagram length and use-after-close (the property promises fan-out only when no destination fails)",
        ],
        "trusted_base": [
            "the harness' loopback sinks (non-blocking drain after every call; 300 ms wait only when the implementation itself reported a successful send)",
            "thrift decoding of received datagrams in the end-to-end suite (a datagram is clean iff it decodes as exactly one emitMetricBatchV2 message with no bytes left)",
        ],
    },
    "C17": {
        "suites": ["c17", "c17seq", "c17race"],
        "timeout": {"quick": 300, "thorough": 1800},
        "assumptions": COMMON_ASSUME + [
            "client_golang v1.11.0 is modelled by the slice of its contract tally relies on (Registry.Register for a single valid descriptor without constant labels: fails iff the fully-qualified name is registered, as AlreadyRegisteredError when help and label names agree, else 'previously registered ... different label names or a different help string'; vec.With get-or-create; Counter.Add, Gauge.Set, histogram Observe via sort.SearchFloat64s with cumulative `le` buckets on Write, summary sample count); the differential run exercises the real library on every case",
            "domain: Prometheus-valid metric and label names (no `__` prefix, no `le` on histograms, no `quantile` on summaries), label values valid UTF-8; counter increments are non-negative integers with sums < 2^53 (Counter.Add panics on negatives and stores float64); bucket specs are non-empty, finite, strictly increasing (Prometheus panics otherwise / substitutes DefBuckets for an empty list), duration bounds stay distinct after conversion to float seconds (generated |d| <= 2^50 ns), one bucket spec per histogram name (a Prometheus family has one bucket layout)",
            "canonicalMetricID(name, tagKeys) = KeyForPrefixedStringMap(name, keySet) is represented in the model by the pair (name, sorted tag keys): injective on delimiter-free (Prometheus-valid) names and keys, which is property C05",
            "float64(d)/float64(time.Second) is computed by Go and passed to the model and the oracle as a bit pattern (the same expression is used by DurationBuckets.AsValues, DurationBucket and ReportTimer); theorems assume it strictly monotone on the spec's bounds (checked per case by the driver)",
            "value agreement is claimed for series whose first use returned a usable metric, in histories that use each (name, tag set) for one metric object and do not reuse a name for two kinds; no-panic and the callback clause are claimed for all histories",
            "summary quantiles and histogram/summary sums are not compared",
        ],
        "trusted_base": ["the obsReporter wrapper in the harness (passes every Allocate* call through to the real reporter and records the dynamic type of what came back)",
                         "C03's theorems placeKey_placed / tiling_value / tiling_duration (re-checked by the kernel as imports)"],
    },
    "C04": {
        "suites": ["scope-c04", "c09sub"],
        "assumptions": COMMON_ASSUME + [
            "Model.Scope is sequential: one API call at a time (concurrency of these paths is C01/C02/C07/C09)",
            "the registry shard of a request is observed through a shim and given to the model as an input",
            "two raw keys of ONE tag map that sanitize to the same key make the outcome depend on Go's map iteration order; the generator avoids them",
        ],
        "trusted_base": ["Model.Scope is tied to scope.go / scope_registry.go by the differential on random programs (plus the facts on fullyQualifiedName and the report call)"],
    },
    "C10": {
        "suites": ["scope-c10", "c10instr", "c10race", "scopeseq", "allocfault"],
        "assumptions": COMMON_ASSUME + [
            "Model.Scope is sequential: one API call at a time (concurrency of these paths is C01/C02/C07/C09)",
            "the registry shard of a request is observed through a shim and given to the model as an input",
            "two raw keys of ONE tag map that sanitize to the same key make the outcome depend on Go's map iteration order; the generator avoids them",
            "the clock is the scripted function installed through the verif shim; real elapsed time is not compared",
        ],
        "trusted_base": ["Model.Scope and Model.Instrument are tied by the differential on random histories"],
    },
    "C11": {
        "suites": ["scope-c11", "c11conc", "c11big", "c20cache", "racescope"],
        "assumptions": COMMON_ASSUME + [
            "Model.Scope is sequential: one API call at a time (concurrency of these paths is C01/C02/C07/C09)",
            "the registry shard of a request is observed through a shim and given to the model as an input",
            "two raw keys of ONE tag map that sanitize to the same key make the outcome depend on Go's map iteration order; the generator avoids them",
            "two metrics with the same full name and tags (e.g. SubScope(a).Counter(b) and Counter(a.b)) share one snapshot key: the theorems are per metric identity, the oracle groups by key",
        ],
        "trusted_base": ["Model.Scope.snapshot is tied by the differential on random histories with snapshots at random points"],
    },
    "C14": {
        "suites": ["c14", "c14race", "c12conc", "c14big"],
        "assumptions": COMMON_ASSUME + [
            "channels: a send on a buffered channel is enabled iff it is open and not full (a send on a closed channel panics, also inside a select), a receive from a closed channel is always enabled, closing a closed channel panics, `range` over a channel ends when it is closed and drained (Go spec); modelled as the queue/closed flags of Model.M3Life",
            "queue capacity >= 1 (NewReporter replaces MaxQueueSize <= 0 by 4096: tie queue_capacity_positive)",
            "liveness is proved as: an enabled step exists whenever a call has not returned (no_deadlock) and every step other than the arrival of a new call decreases a measure (close_terminates_under_fairness); the assumptions are (i) the Go scheduler eventually runs every runnable goroutine (the spin loop yields with Gosched), (ii) no infinite stream of NEW overlapping calls keeps pending non-zero at every spin check, (iii) the batching goroutine's UDP write returns",
            "the worker goroutines (process, timeLoop) are not schedule-controlled: in the lock-step the driver lets the model's consumer/clock take their enabled steps right before wg.Wait and before the books are compared; their effect is observed through the m3.process.charge hook, the sink and the goroutine census",
            "data-race freedom in the sense of the Go memory model is not expressible in the interleaving model: it is checked by the Go race detector on a dedicated test binary (harness/racec14) and, as an observable consequence, by a value-integrity run",
        ],
        "trusted_base": [
            "cooperative scheduler on the verif yield hooks (harness/sched.go); hook-to-hook granularity: send + deferred Dec (and Dec + next Inc) are one scheduler step, the finer interleavings are covered by the theorems only",
            "Go race detector (go test -race, needs cgo) and runtime.Stack(all) for the goroutine census",
        ],
        "timeout": {"quick": 300, "thorough": 3000},
    },
    "C12": {
        "suites": ["c12", "c15", "c12conc", "c13fault", "c13pool"],
        "assumptions": COMMON_ASSUME + [
            "the thrift encodings are those of Tally/Model/Thrift.lean (C16: byte-for-byte differential against the generated client); sizes in the spec are measured with that codec on the received bytes",
            "a metric's charge is fixed at allocation and value-independent, so 'charged >= bytes with the worst value of its kind' per metric + 'reserved overhead >= everything that is not a metric' + 'charges of a batch <= freeBytes' are judged per datagram; together they imply the bound for every batch composition (theorem datagram_le_max)",
            "MaxPacketSizeBytes is generated up to thriftudp.MaxLength = 65000 (larger limits are C15's domain); every single metric generated fits on its own except in the sessions just above the constructor's minimum, where the property's proviso applies",
            "process() is the only consumer of the queue: the charge / flush hooks give the charges in exactly the order the metrics enter batches",
        ],
        "trusted_base": [
            "loopback UDP sinks (net.ListenUDP, 4 MiB receive buffer): a datagram missing by sequence number is reported as a machinery failure (udp-loss), never as a pass or a violation",
            "verif-tagged shims m3.VerifFreeBytes / VerifOverheadBytes and the YieldInt hooks m3.process.charge / m3.process.flush",
        ],
        "timeout": {"quick": 300, "thorough": 3000},
    },
    "C13": {
        "suites": ["c13", "c12", "c13fault", "c12conc", "c13big", "c13pool"],
        "assumptions": COMMON_ASSUME + [
            "a concurrent history is represented by the order in which its sends on metCh, its tag-cache accesses and its clock stores took effect (the queue totally orders the sends; cache and interner are lock protected and monotone); the bounded queue only delays senders",
            "the harness logs reports per producer goroutine; emitted metrics are matched to log entries by name and kind in per-producer order (names are distinct per producer), values / tags / timestamps of the matched pairs are then judged clause by clause; tally.internal.* telemetry sent by Flush is excluded from the matching",
            "reports concurrent with Close may legitimately be dropped: Close is called after every producer has returned",
            "wall clock: time.Now().UnixNano() read by the harness before the constructor and after each call brackets the reporter's clock cell (same clock source, monotone in the sandbox); timestamp-monotone additionally assumes the cell never goes back",
            "bucket bounds are finite and contain one spelling of zero (sort.Sort is not stable; NaN bounds are C03's excluded domain); fmt %.Nf and Duration.String are the Lean re-implementations of C18",
            "a Go map is an association list with distinct keys enumerated in arbitrary order; the model is given the observed enumeration order of every tag map and the observed clock values as inputs",
        ],
        "trusted_base": [
            "loopback UDP sinks (net.ListenUDP, 4 MiB receive buffer): a datagram missing by sequence number is reported as a machinery failure (udp-loss), never as a pass or a violation",
            "the tag-map hash is internal (internal/identity): the harness re-implements its formula (murmur3 of key=value, seed 23, fold 31; constants tied by facts) only to confirm that maps built to collide really do when a wrong-tags violation is classified; tags_intact holds for every hash function",
            "the YieldInt hooks m3.process.charge / m3.process.flush (number of emitted batches, used to tell UDP loss from delivery)",
        ],
        "timeout": {"quick": 300, "thorough": 3000},
    },
}
