# property id -> configuration used by check.py
COMMON_ASSUME = [
    "Go runtime: sync/atomic operations are sequentially consistent; RWMutex, WaitGroup and channels behave as documented",
    "the harness observes the implementation only through recording reporters / sinks and the verif-tagged hooks",
]
PROPS = {
    "C03": {
        "suites": ["c03"],
        "assumptions": COMMON_ASSUME + [
            "sort.Sort returns a permutation sorted by Less (modelled by merge sort; theorems hold for the sorted permutation)",
            "float64 comparison is IEEE-754 (modelled on bit patterns through a sign-magnitude key)",
        ],
        "trusted_base": ["sort.Search is modelled by its binary-search loop (proved to return the least index)"],
    },
}
