# property id -> configuration used by check.py
COMMON_ASSUME = [
    "Go runtime: sync/atomic operations are sequentially consistent; RWMutex, WaitGroup and channels behave as documented",
    "the harness observes the implementation only through recording reporters / sinks and the verif-tagged hooks",
]
PROPS = {
    "C03": {
        "suites": ["c03"],
        "assumptions": COMMON_ASSUME + [
            "sort.Sort returns a permutation sorted by Less (modelled by merge sort; theorems hold for the sorted permutation)",
            "float64 comparison is IEEE-754 (modelled on bit patterns through a sign-magnitude key)",
        ],
        "trusted_base": ["sort.Search is modelled by its binary-search loop (proved to return the least index)"],
    },
    "C06": {
        "suites": ["c06"],
        "assumptions": COMMON_ASSUME + [
            "Go's utf8 decoding (range over string) and bytes.Buffer.WriteRune are re-implemented in Lean (Tally/Model/Utf8.lean) and compared byte for byte through the differential",
            "a replacement rune that is not a Unicode scalar value is written as U+FFFD (lemma encodeRune; the oracle uses normRep)",
        ],
        "trusted_base": ["sync.Pool buffer recycling is not modelled; its independence is exercised by 16 concurrent goroutines per 40th case"],
    },
    "C01": {
        "suites": ["c01"],
        "assumptions": COMMON_ASSUME + [
            "a report pass reaches a counter only through counter.report / cachedReport / histogram.report (tie facts), so 'visit' = swap then optional reporter call",
            "lifting from one cell to 'per name and tags': a pass visits each registered counter once (C04/C07 cover registration and naming)",
        ],
        "trusted_base": ["cooperative scheduler on the verif yield hooks (harness/sched.go): exactly one registered goroutine runs between two hooks"],
        "timeout": {"quick": 300, "thorough": 3000},
    },
    "C02": {
        "suites": ["c02"],
        "assumptions": COMMON_ASSUME + [
            "one updating goroutine per gauge (the property's quantifier); the load of the value and the reporter call are one action in the model (no schedule point between them in the code; a pass pre-empted there could hand an older value to the reporter after a newer one - not exhibited, see DESIGN.md C02)",
        ],
        "trusted_base": ["cooperative scheduler on the verif yield hooks (harness/sched.go)"],
        "timeout": {"quick": 300, "thorough": 3000},
    },
    "C19": {
        "suites": ["c19"],
        "assumptions": COMMON_ASSUME + [
            "the children do not panic, do not call back into the multi reporter and hand out one fresh handle per allocation (recording children; handles are numbered by allocation order per child)",
            "`for … range` over a slice visits the elements in index order, once each (Go spec); float64 / int64 / string / map arguments are passed unchanged by an interface method call",
            "one goroutine: the property is about call histories, the sequence numbers come from one atomic counter shared by the children",
            "Capabilities() of a child is a pure query: the multi reporter may ask each child several times (it asks up to twice), which is not counted as a forwarded call",
        ],
        "trusted_base": [
            "the whole-body facts of multi/reporter.go (signature + every statement of the 2 constructors, 21 methods and 5 type declarations) extracted by factgen; the reading of these bodies as `fan` (one loop over the children in order) is by inspection",
        ],
        "timeout": {"quick": 300, "thorough": 1500},
    },
    "C05": {
        "suites": ["scope-c05"],
        "assumptions": COMMON_ASSUME + [
            "a Go map is an association list with distinct keys enumerated in arbitrary order (key_order_independent quantifies over the order)",
            "the registry shard of a request is a function of its raw key (maphash with a per-root seed); the harness observes it through a shim and the model takes it as an input",
            "same-scope guarantee is judged only for derivations through inputs the sanitizer leaves unchanged (as the property states); with changed inputs and several shards the implementation may create a second object of one identity, which the model follows",
        ],
        "trusted_base": ["Model.Scope is tied to scope.go / scope_registry.go by the differential on random programs only (no structural facts beyond the key writer)"],
    },
}
