module verif/factgen

go 1.20
