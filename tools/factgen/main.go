// factgen extracts a small set of facts from the Go sources of uber-go/tally and prints them
// as a Lean 4 module (Tally/Generated/Facts.lean). It uses go/parser + go/ast only.
//
// Facts are plain data (constants) and the order of synchronisation operations / comparison
// operators of the few functions whose correctness *is* that order. If a function is missing
// or its shape is not understood, the fact is emitted as the empty list / empty string, which
// makes the corresponding tie theorem fail.
package main

import (
	"bytes"
	"fmt"
	"go/ast"
	"go/parser"
	"go/printer"
	"go/token"
	"os"
	"path/filepath"
	"sort"
	"strconv"
	"strings"
)

var fset = token.NewFileSet()

type pkgFiles map[string]*ast.File

func parseDir(dir string) pkgFiles {
	out := pkgFiles{}
	ents, err := os.ReadDir(dir)
	if err != nil {
		return out
	}
	for _, e := range ents {
		n := e.Name()
		if e.IsDir() || !strings.HasSuffix(n, ".go") || strings.HasSuffix(n, "_test.go") || strings.HasPrefix(n, "verif_") {
			continue
		}
		f, err := parser.ParseFile(fset, filepath.Join(dir, n), nil, 0)
		if err != nil {
			continue
		}
		out[n] = f
	}
	return out
}

func exprStr(n ast.Node) string {
	var b bytes.Buffer
	printer.Fprint(&b, fset, n)
	return strings.Join(strings.Fields(b.String()), " ")
}

// allFuncs lists (sorted) every function / method with a body as (receiver type or "", name).
func allFuncs(files pkgFiles) [][2]string {
	var out [][2]string
	for _, f := range files {
		for _, d := range f.Decls {
			fd, ok := d.(*ast.FuncDecl)
			if !ok || fd.Body == nil {
				continue
			}
			r := ""
			if fd.Recv != nil && len(fd.Recv.List) == 1 {
				t := fd.Recv.List[0].Type
				if s, ok := t.(*ast.StarExpr); ok {
					t = s.X
				}
				if id, ok := t.(*ast.Ident); ok {
					r = id.Name
				} else {
					continue
				}
			}
			out = append(out, [2]string{r, fd.Name.Name})
		}
	}
	sort.Slice(out, func(i, j int) bool { return out[i][0]+"."+out[i][1] < out[j][0]+"."+out[j][1] })
	return out
}

// methodNames lists (sorted) the methods of receiver type recv whose name starts with one of the prefixes.
func methodNames(files pkgFiles, recv string, prefixes ...string) []string {
	var out []string
	for _, f := range files {
		for _, d := range f.Decls {
			fd, ok := d.(*ast.FuncDecl)
			if !ok || fd.Body == nil || fd.Recv == nil || len(fd.Recv.List) != 1 {
				continue
			}
			t := fd.Recv.List[0].Type
			if s, ok := t.(*ast.StarExpr); ok {
				t = s.X
			}
			id, ok := t.(*ast.Ident)
			if !ok || id.Name != recv {
				continue
			}
			for _, p := range prefixes {
				if strings.HasPrefix(fd.Name.Name, p) {
					out = append(out, fd.Name.Name)
					break
				}
			}
		}
	}
	sort.Strings(out)
	return out
}

// findFunc finds a function or method: recv "" for plain functions, else the receiver type name without '*'.
func findFunc(files pkgFiles, recv, name string) *ast.FuncDecl {
	for _, f := range files {
		for _, d := range f.Decls {
			fd, ok := d.(*ast.FuncDecl)
			if !ok || fd.Name.Name != name || fd.Body == nil {
				continue
			}
			r := ""
			if fd.Recv != nil && len(fd.Recv.List) == 1 {
				t := fd.Recv.List[0].Type
				if s, ok := t.(*ast.StarExpr); ok {
					t = s.X
				}
				if id, ok := t.(*ast.Ident); ok {
					r = id.Name
				}
			}
			if r == recv {
				return fd
			}
		}
	}
	return nil
}

func constValue(files pkgFiles, name string) ast.Expr {
	for _, f := range files {
		for _, d := range f.Decls {
			gd, ok := d.(*ast.GenDecl)
			if !ok || (gd.Tok != token.CONST && gd.Tok != token.VAR) {
				continue
			}
			for _, s := range gd.Specs {
				vs := s.(*ast.ValueSpec)
				for i, n := range vs.Names {
					if n.Name == name && i < len(vs.Values) {
						return vs.Values[i]
					}
				}
			}
		}
	}
	return nil
}

var syncMethods = map[string]bool{"Load": true, "Store": true, "Swap": true, "CAS": true, "Inc": true, "Dec": true, "Add": true,
	"Lock": true, "Unlock": true, "RLock": true, "RUnlock": true, "Wait": true, "Done": true, "CompareAndSwap": true}

// syncOps lists, in source order, the synchronisation operations and the calls named in extra.
func syncOps(fd *ast.FuncDecl, extra map[string]bool) []string {
	if fd == nil {
		return nil
	}
	var out []string
	var visit func(n ast.Node, deferred bool)
	visit = func(n ast.Node, deferred bool) {
		ast.Inspect(n, func(n ast.Node) bool {
			switch x := n.(type) {
			case *ast.DeferStmt:
				visit(x.Call, true)
				return false
			case *ast.FuncLit:
				return true
			case *ast.SendStmt:
				out = append(out, "send "+exprStr(x.Chan))
			case *ast.UnaryExpr:
				if x.Op == token.ARROW {
					out = append(out, "recv "+exprStr(x.X))
				}
			case *ast.CallExpr:
				pre := ""
				if deferred {
					pre = "defer "
					deferred = false
				}
				switch fn := x.Fun.(type) {
				case *ast.Ident:
					if fn.Name == "close" {
						out = append(out, pre+exprStr(x))
					} else if extra[fn.Name] {
						out = append(out, pre+exprStr(x))
					}
				case *ast.SelectorExpr:
					if id, ok := fn.X.(*ast.Ident); ok && id.Name == "verifhook" {
						return false
					}
					if id, ok := fn.X.(*ast.Ident); ok && id.Name == "atomic" {
						out = append(out, pre+exprStr(x))
					} else if syncMethods[fn.Sel.Name] || extra[fn.Sel.Name] {
						out = append(out, pre+exprStr(x))
					}
				}
			}
			return true
		})
	}
	visit(fd.Body, false)
	return out
}

// firstBinaryIn returns op, lhs, rhs of the first binary comparison inside the first func literal
// passed to a call of `callee` (e.g. sort.Search) within fd.
func cmpInClosure(fd *ast.FuncDecl, callee string) []string {
	if fd == nil {
		return nil
	}
	var res []string
	ast.Inspect(fd.Body, func(n ast.Node) bool {
		if res != nil {
			return false
		}
		ce, ok := n.(*ast.CallExpr)
		if !ok || exprStr(ce.Fun) != callee {
			return true
		}
		for _, a := range ce.Args {
			fl, ok := a.(*ast.FuncLit)
			if !ok {
				continue
			}
			ast.Inspect(fl.Body, func(m ast.Node) bool {
				if be, ok := m.(*ast.BinaryExpr); ok && res == nil {
					switch be.Op {
					case token.GEQ, token.LEQ, token.GTR, token.LSS, token.EQL, token.NEQ:
						res = []string{be.Op.String(), exprStr(be.X), exprStr(be.Y)}
						return false
					}
				}
				return true
			})
		}
		return true
	})
	return res
}

// conds lists the conditions of the top-level if statements of fd (guards), in order.
func guards(fd *ast.FuncDecl) []string {
	if fd == nil {
		return nil
	}
	var out []string
	for _, st := range fd.Body.List {
		if is, ok := st.(*ast.IfStmt); ok {
			out = append(out, exprStr(is.Cond))
		}
	}
	return out
}

// caseLists lists the expression lists of all case clauses in fd, in source order
func caseLists(fd *ast.FuncDecl) []string {
	if fd == nil {
		return nil
	}
	var out []string
	ast.Inspect(fd.Body, func(n ast.Node) bool {
		if cc, ok := n.(*ast.CaseClause); ok {
			parts := make([]string, len(cc.List))
			for i, e := range cc.List {
				parts[i] = exprStr(e)
			}
			out = append(out, strings.Join(parts, ", "))
		}
		return true
	})
	return out
}

// calls lists the names of the functions called in fd (plain identifiers only), in source order
func plainCalls(fd *ast.FuncDecl) []string {
	if fd == nil {
		return nil
	}
	var out []string
	ast.Inspect(fd.Body, func(n ast.Node) bool {
		if ce, ok := n.(*ast.CallExpr); ok {
			if id, ok := ce.Fun.(*ast.Ident); ok {
				out = append(out, id.Name+"("+strconv.Itoa(len(ce.Args))+")")
			}
		}
		return true
	})
	return out
}

// all comparison operators (with operands) in fd, in source order
func comparisons(fd *ast.FuncDecl) []string {
	if fd == nil {
		return nil
	}
	var out []string
	ast.Inspect(fd.Body, func(n ast.Node) bool {
		if be, ok := n.(*ast.BinaryExpr); ok {
			switch be.Op {
			case token.GEQ, token.LEQ, token.GTR, token.LSS, token.EQL, token.NEQ:
				out = append(out, exprStr(be))
			}
		}
		return true
	})
	return out
}

// loopAssigns lists the assignment statements inside the for / range loops of fd, in source order.
func loopAssigns(fd *ast.FuncDecl) []string {
	if fd == nil {
		return nil
	}
	var out []string
	ast.Inspect(fd.Body, func(n ast.Node) bool {
		var body *ast.BlockStmt
		switch x := n.(type) {
		case *ast.ForStmt:
			body = x.Body
		case *ast.RangeStmt:
			body = x.Body
		}
		if body != nil {
			for _, st := range body.List {
				if as, ok := st.(*ast.AssignStmt); ok {
					out = append(out, exprStr(as))
				}
			}
		}
		return true
	})
	return out
}

// assignsIn lists every assignment statement of fd, in source order.
func assignsIn(fd *ast.FuncDecl) []string {
	if fd == nil {
		return nil
	}
	var out []string
	ast.Inspect(fd.Body, func(n ast.Node) bool {
		if as, ok := n.(*ast.AssignStmt); ok {
			out = append(out, exprStr(as))
		}
		return true
	})
	return out
}

// callsIn lists every call expression of fd whose text contains `sub` ("" = all), in source order
// (an enclosing call before the calls in its arguments).
func callsIn(fd *ast.FuncDecl, sub string) []string {
	if fd == nil {
		return nil
	}
	var out []string
	ast.Inspect(fd.Body, func(n ast.Node) bool {
		if ce, ok := n.(*ast.CallExpr); ok {
			if s := exprStr(ce); strings.Contains(s, sub) {
				out = append(out, s)
			}
		}
		return true
	})
	return out
}

// varSpecs lists `name = value` for the var declarations of fd that declare one of the given names.
func varSpecs(fd *ast.FuncDecl, names map[string]bool) []string {
	if fd == nil {
		return nil
	}
	var out []string
	ast.Inspect(fd.Body, func(n ast.Node) bool {
		if vs, ok := n.(*ast.ValueSpec); ok {
			for i, id := range vs.Names {
				if names[id.Name] && i < len(vs.Values) {
					out = append(out, id.Name+" = "+exprStr(vs.Values[i]))
				}
			}
		}
		return true
	})
	return out
}

func filterContains(l []string, sub string) []string {
	var out []string
	for _, s := range l {
		if strings.Contains(s, sub) {
			out = append(out, s)
		}
	}
	return out
}

// ifConds lists the conditions of every if statement of fd (nested ones included), in source order.
func ifConds(fd *ast.FuncDecl) []string {
	if fd == nil {
		return nil
	}
	var out []string
	ast.Inspect(fd.Body, func(n ast.Node) bool {
		if is, ok := n.(*ast.IfStmt); ok {
			out = append(out, exprStr(is.Cond))
		}
		return true
	})
	return out
}

// statement-level calls in fd body (top-level and nested), names only, for ordering facts
func returnsIn(fd *ast.FuncDecl) []string {
	if fd == nil {
		return nil
	}
	var out []string
	ast.Inspect(fd.Body, func(n ast.Node) bool {
		if r, ok := n.(*ast.ReturnStmt); ok {
			out = append(out, exprStr(r))
		}
		return true
	})
	return out
}

// topStmts lists the top-level statements of fd's body, each printed on one line (whitespace-normalised).
func topStmts(fd *ast.FuncDecl) []string {
	if fd == nil {
		return nil
	}
	var out []string
	for _, st := range fd.Body.List {
		out = append(out, exprStr(st))
	}
	return out
}

// evalInt evaluates integer constant expressions built from literals, + - * / and time units.
func evalInt(e ast.Expr, files pkgFiles) (int64, bool) {
	units := map[string]int64{"time.Nanosecond": 1, "time.Microsecond": 1e3, "time.Millisecond": 1e6, "time.Second": 1e9, "time.Minute": 60e9}
	switch x := e.(type) {
	case *ast.BasicLit:
		if x.Kind == token.INT {
			v, err := strconv.ParseInt(x.Value, 0, 64)
			return v, err == nil
		}
		if x.Kind == token.CHAR {
			r, _, _, err := strconv.UnquoteChar(x.Value[1:len(x.Value)-1], '\'')
			return int64(r), err == nil
		}
	case *ast.ParenExpr:
		return evalInt(x.X, files)
	case *ast.SelectorExpr:
		if v, ok := units[exprStr(x)]; ok {
			return v, true
		}
	case *ast.Ident:
		if c := constValue(files, x.Name); c != nil {
			return evalInt(c, files)
		}
	case *ast.CallExpr: // conversions like int32(32768), uint(6)
		if len(x.Args) == 1 {
			return evalInt(x.Args[0], files)
		}
	case *ast.BinaryExpr:
		a, ok1 := evalInt(x.X, files)
		b, ok2 := evalInt(x.Y, files)
		if ok1 && ok2 {
			switch x.Op {
			case token.ADD:
				return a + b, true
			case token.SUB:
				return a - b, true
			case token.MUL:
				return a * b, true
			case token.QUO:
				if b != 0 {
					return a / b, true
				}
			}
		}
	}
	return 0, false
}

// bodyShape renders a function completely, as a flat list: its signature, then every top-level
// statement; a `for … range` statement is rendered as its header followed by the statements of its
// body prefixed with "| ". Any edit of the body changes the list (C19: each forwarding method of the
// multi reporter is exactly one loop over the children calling the same-named method with the same
// arguments in the same order).
func bodyShape(fd *ast.FuncDecl) []string {
	if fd == nil {
		return nil
	}
	out := []string{exprStr(fd.Type)}
	for _, st := range fd.Body.List {
		if rs, ok := st.(*ast.RangeStmt); ok {
			k, v := "_", "_"
			if rs.Key != nil {
				k = exprStr(rs.Key)
			}
			if rs.Value != nil {
				v = exprStr(rs.Value)
			}
			out = append(out, "for "+k+", "+v+" "+rs.Tok.String()+" range "+exprStr(rs.X))
			for _, b := range rs.Body.List {
				out = append(out, "| "+exprStr(b))
			}
			continue
		}
		out = append(out, exprStr(st))
	}
	return out
}

// structFields lists "name type" for the fields of a struct type declaration.
func structFields(files pkgFiles, name string) []string {
	var out []string
	for _, f := range files {
		for _, d := range f.Decls {
			gd, ok := d.(*ast.GenDecl)
			if !ok || gd.Tok != token.TYPE {
				continue
			}
			for _, s := range gd.Specs {
				ts := s.(*ast.TypeSpec)
				if ts.Name.Name != name {
					continue
				}
				st, ok := ts.Type.(*ast.StructType)
				if !ok {
					return []string{"type " + exprStr(ts.Type)}
				}
				for _, fl := range st.Fields.List {
					for _, n := range fl.Names {
						out = append(out, n.Name+" "+exprStr(fl.Type))
					}
				}
			}
		}
	}
	return out
}

// flatStmts prints a function body as a flat list: compound statements contribute a header line
// ("if <cond>", "else", "for …", "range …", "switch …", "case …") followed by their bodies.
func flatStmts(list []ast.Stmt) []string {
	var out []string
	var walk func(st ast.Stmt)
	walk = func(st ast.Stmt) {
		switch x := st.(type) {
		case *ast.BlockStmt:
			for _, s := range x.List {
				walk(s)
			}
		case *ast.IfStmt:
			h := "if "
			if x.Init != nil {
				h += exprStr(x.Init) + "; "
			}
			out = append(out, h+exprStr(x.Cond))
			walk(x.Body)
			if x.Else != nil {
				out = append(out, "else")
				walk(x.Else)
			}
		case *ast.ForStmt:
			h := "for"
			if x.Init != nil {
				h += " " + exprStr(x.Init) + ";"
			}
			if x.Cond != nil {
				h += " " + exprStr(x.Cond)
			}
			if x.Post != nil {
				h += "; " + exprStr(x.Post)
			}
			out = append(out, h)
			walk(x.Body)
		case *ast.RangeStmt:
			out = append(out, "range "+exprStr(x.X))
			walk(x.Body)
		case *ast.SwitchStmt:
			h := "switch"
			if x.Tag != nil {
				h += " " + exprStr(x.Tag)
			}
			out = append(out, h)
			walk(x.Body)
		case *ast.CaseClause:
			if x.List == nil {
				out = append(out, "default")
			} else {
				parts := make([]string, len(x.List))
				for i, e := range x.List {
					parts[i] = exprStr(e)
				}
				out = append(out, "case "+strings.Join(parts, ", "))
			}
			for _, s := range x.Body {
				walk(s)
			}
		default:
			if t := exprStr(st); !strings.HasPrefix(t, "verifhook.") { // build-tagged yield points are not part of the function's logic
				out = append(out, t)
			}
		}
	}
	for _, s := range list {
		walk(s)
	}
	return out
}

func funcStmts(fd *ast.FuncDecl) []string {
	if fd == nil {
		return nil
	}
	return flatStmts(fd.Body.List)
}

// cacheHitBody returns the body of the first top-level `if x, ok := <map>[id]; ok { … }` of fd.
func cacheHitBody(fd *ast.FuncDecl) *ast.BlockStmt {
	if fd == nil {
		return nil
	}
	for _, st := range fd.Body.List {
		if is, ok := st.(*ast.IfStmt); ok && is.Init != nil && exprStr(is.Cond) == "ok" {
			return is.Body
		}
	}
	return nil
}

// hitShape classifies what a vector getter does on a cache hit:
// "returns-field" (`return e.<field>, nil`), "nil-check-then-error" (`if e.<field> == nil { return nil, <err> }; return e.<field>, nil`), else "unknown".
func hitShape(fd *ast.FuncDecl, field string) string {
	b := cacheHitBody(fd)
	if b == nil {
		return "unknown"
	}
	isFieldReturn := func(st ast.Stmt) bool {
		r, ok := st.(*ast.ReturnStmt)
		if !ok || len(r.Results) != 2 || exprStr(r.Results[1]) != "nil" {
			return false
		}
		se, ok := r.Results[0].(*ast.SelectorExpr)
		return ok && se.Sel.Name == field
	}
	switch len(b.List) {
	case 1:
		if isFieldReturn(b.List[0]) {
			return "returns-field"
		}
	case 2:
		is, ok := b.List[0].(*ast.IfStmt)
		if !ok || is.Else != nil || len(is.Body.List) != 1 || !isFieldReturn(b.List[1]) {
			return "unknown"
		}
		be, ok := is.Cond.(*ast.BinaryExpr)
		if !ok || be.Op != token.EQL || exprStr(be.Y) != "nil" {
			return "unknown"
		}
		if se, ok := be.X.(*ast.SelectorExpr); !ok || se.Sel.Name != field {
			return "unknown"
		}
		r, ok := is.Body.List[0].(*ast.ReturnStmt)
		if ok && len(r.Results) == 2 && exprStr(r.Results[0]) == "nil" && exprStr(r.Results[1]) != "nil" {
			return "nil-check-then-error"
		}
	}
	return "unknown"
}

// helpSuffixes finds, in each named function, the calls of the vector getters and returns
// (getter name, bytes of the string literal in the help argument `name + "<suffix>"`).
func helpSuffixes(files pkgFiles, funcs []string) string {
	var items []string
	for _, fn := range funcs {
		fd := findFunc(files, "reporter", fn)
		if fd == nil {
			continue
		}
		ast.Inspect(fd.Body, func(n ast.Node) bool {
			ce, ok := n.(*ast.CallExpr)
			if !ok {
				return true
			}
			se, ok := ce.Fun.(*ast.SelectorExpr)
			if !ok || !strings.HasSuffix(se.Sel.Name, "Vec") || len(ce.Args) < 3 {
				return true
			}
			be, ok := ce.Args[2].(*ast.BinaryExpr)
			if !ok || be.Op != token.ADD || exprStr(be.X) != "name" {
				return true
			}
			lit, ok := be.Y.(*ast.BasicLit)
			if !ok || lit.Kind != token.STRING {
				return true
			}
			sfx, err := strconv.Unquote(lit.Value)
			if err != nil {
				return true
			}
			bs := make([]string, len(sfx))
			for i := 0; i < len(sfx); i++ {
				bs[i] = strconv.Itoa(int(sfx[i]))
			}
			items = append(items, fmt.Sprintf("(%s, [%s])", leanStr(fn+":"+se.Sel.Name), strings.Join(bs, ", ")))
			return true
		})
	}
	return "[" + strings.Join(items, ", ") + "]"
}

// errBranch returns the flattened body of the first `if err != nil { … }` found anywhere in fd.
func errBranch(fd *ast.FuncDecl) []string {
	if fd == nil {
		return nil
	}
	var res []string
	ast.Inspect(fd.Body, func(n ast.Node) bool {
		if res != nil {
			return false
		}
		if is, ok := n.(*ast.IfStmt); ok && exprStr(is.Cond) == "err != nil" {
			res = flatStmts(is.Body.List)
			return false
		}
		return true
	})
	return res
}

// assignments to struct fields (`x.f = v`) in fd, in source order
func fieldAssigns(fd *ast.FuncDecl) []string {
	if fd == nil {
		return nil
	}
	var out []string
	ast.Inspect(fd.Body, func(n ast.Node) bool {
		if a, ok := n.(*ast.AssignStmt); ok && a.Tok == token.ASSIGN && len(a.Lhs) == 1 {
			if _, ok := a.Lhs[0].(*ast.SelectorExpr); ok {
				out = append(out, exprStr(a))
			}
		}
		return true
	})
	return out
}

// break / continue / goto statements in fd, in source order
func branches(fd *ast.FuncDecl) []string {
	if fd == nil {
		return nil
	}
	var out []string
	ast.Inspect(fd.Body, func(n ast.Node) bool {
		if b, ok := n.(*ast.BranchStmt); ok {
			out = append(out, exprStr(b))
		}
		return true
	})
	return out
}

func leanStr(s string) string { return strconv.Quote(s) }

func leanStrList(l []string) string {
	q := make([]string, len(l))
	for i, s := range l {
		q[i] = leanStr(s)
	}
	return "[" + strings.Join(q, ", ") + "]"
}

type out struct{ b strings.Builder }

func (o *out) strs(name string, l []string, doc string) {
	fmt.Fprintf(&o.b, "/-- %s -/\ndef %s : List String := %s\n\n", doc, name, leanStrList(l))
}
func (o *out) int(name string, e ast.Expr, files pkgFiles, doc string) {
	v, ok := int64(0), false
	if e != nil {
		v, ok = evalInt(e, files)
	}
	if !ok {
		fmt.Fprintf(&o.b, "/-- %s (NOT FOUND) -/\ndef %s : Option Int := none\n\n", doc, name)
		return
	}
	fmt.Fprintf(&o.b, "/-- %s -/\ndef %s : Option Int := some (%d)\n\n", doc, name, v)
}
// strConst prints a string constant of the package (a basic literal) or "<not found>"
func (o *out) strConst(name string, e ast.Expr, doc string) {
	v := "<not found>"
	if bl, ok := e.(*ast.BasicLit); ok && bl.Kind == token.STRING {
		if u, err := strconv.Unquote(bl.Value); err == nil {
			v = u
		}
	}
	o.str(name, v, doc)
}
func (o *out) str(name string, s string, doc string) {
	fmt.Fprintf(&o.b, "/-- %s -/\ndef %s : String := %s\n\n", doc, name, leanStr(s))
}

func main() {
	root := "/repo"
	if len(os.Args) > 1 {
		root = os.Args[1]
	}
	tally := parseDir(root)
	m3 := parseDir(filepath.Join(root, "m3"))
	udp := parseDir(filepath.Join(root, "m3", "thriftudp"))
	ident := parseDir(filepath.Join(root, "internal", "identity"))
	cache := parseDir(filepath.Join(root, "internal", "cache"))
	multi := parseDir(filepath.Join(root, "multi"))
	statsd := parseDir(filepath.Join(root, "statsd"))
	prom := parseDir(filepath.Join(root, "prometheus"))
	instr := parseDir(filepath.Join(root, "instrument"))
	_ = cache

	o := &out{}
	o.b.WriteString("/-! GENERATED by tools/factgen from the Go sources under /repo — do not edit. -/\nnamespace Tally.Facts\n\n")

	// key_gen.go
	o.int("prefixSplitter", constValue(tally, "prefixSplitter"), tally, "key_gen.go: prefixSplitter")
	o.int("keyPairSplitter", constValue(tally, "keyPairSplitter"), tally, "key_gen.go: keyPairSplitter")
	o.int("keyNameSplitter", constValue(tally, "keyNameSplitter"), tally, "key_gen.go: keyNameSplitter")
	o.strs("keyWriterComparisons", comparisons(findFunc(tally, "", "keyForPrefixedStringMapsAsKey")), "comparisons in keyForPrefixedStringMapsAsKey")
	o.int("keyEscape", constValue(tally, "keyEscape"), tally, "key_gen.go: keyEscape")
	o.strs("appendKeyEscapedCases", caseLists(findFunc(tally, "", "appendKeyEscaped")), "key_gen.go: bytes escaped by appendKeyEscaped")
	o.strs("keyWriterCalls", plainCalls(findFunc(tally, "", "keyForPrefixedStringMapsAsKey")), "key_gen.go: calls in the key writer")
	o.strs("insertionSortComparisons", comparisons(findFunc(tally, "", "insertionSort")), "comparisons in insertionSort")

	// version.go, scope_registry.go: the library's own cardinality gauges
	o.strConst("tallyVersion", constValue(tally, "Version"), "version.go: Version")
	o.strConst("counterCardinalityName", constValue(tally, "counterCardinalityName"), "scope_registry.go")
	o.strConst("gaugeCardinalityName", constValue(tally, "gaugeCardinalityName"), "scope_registry.go")
	o.strConst("histogramCardinalityName", constValue(tally, "histogramCardinalityName"), "scope_registry.go")
	o.strConst("scopeCardinalityName", constValue(tally, "scopeCardinalityName"), "scope_registry.go")
	o.strConst("defaultTagRedactValue", constValue(tally, "DefaultTagRedactValue"), "scope_registry.go")
	o.strs("reportInternalMetricsCalls", callsIn(findFunc(tally, "scopeRegistry", "reportInternalMetrics"), "Report"), "reportInternalMetrics: reporter calls")

	// stats.go
	o.strs("counterIncOps", syncOps(findFunc(tally, "counter", "Inc"), nil), "(*counter).Inc")
	o.strs("counterValueOps", syncOps(findFunc(tally, "counter", "value"), nil), "(*counter).value")
	o.strs("counterValueReturns", returnsIn(findFunc(tally, "counter", "value")), "(*counter).value returns")
	o.strs("counterSnapshotOps", syncOps(findFunc(tally, "counter", "snapshot"), nil), "(*counter).snapshot")
	o.strs("counterReportOps", syncOps(findFunc(tally, "counter", "report"), map[string]bool{"value": true, "ReportCounter": true}), "(*counter).report")
	o.strs("counterCachedReportOps", syncOps(findFunc(tally, "counter", "cachedReport"), map[string]bool{"value": true, "ReportCount": true}), "(*counter).cachedReport")
	o.strs("counterReportGuards", guards(findFunc(tally, "counter", "report")), "(*counter).report guards")
	o.strs("histogramReportOps", syncOps(findFunc(tally, "histogram", "report"), map[string]bool{"value": true, "ReportHistogramValueSamples": true, "ReportHistogramDurationSamples": true}), "(*histogram).report")
	o.strs("histogramCachedReportOps", syncOps(findFunc(tally, "histogram", "cachedReport"), map[string]bool{"value": true, "ReportSamples": true}), "(*histogram).cachedReport")
	o.strs("gaugeUpdateOps", syncOps(findFunc(tally, "gauge", "Update"), nil), "(*gauge).Update")
	o.strs("gaugeValueOps", syncOps(findFunc(tally, "gauge", "value"), nil), "(*gauge).value")
	o.strs("gaugeReportOps", syncOps(findFunc(tally, "gauge", "report"), map[string]bool{"value": true, "ReportGauge": true}), "(*gauge).report")
	o.strs("gaugeCachedReportOps", syncOps(findFunc(tally, "gauge", "cachedReport"), map[string]bool{"value": true, "ReportGauge": true}), "(*gauge).cachedReport")
	o.strs("gaugeReportGuards", guards(findFunc(tally, "gauge", "report")), "(*gauge).report guards")
	o.strs("recordValueCmp", cmpInClosure(findFunc(tally, "histogram", "RecordValue"), "sort.Search"), "RecordValue: comparison in the sort.Search closure")
	o.strs("recordDurationCmp", cmpInClosure(findFunc(tally, "histogram", "RecordDuration"), "sort.Search"), "RecordDuration: comparison in the sort.Search closure")
	o.strs("recordValueGuards", guards(findFunc(tally, "histogram", "RecordValue")), "RecordValue guards")
	o.strs("recordDurationGuards", guards(findFunc(tally, "histogram", "RecordDuration")), "RecordDuration guards")
	o.strs("valueLowerBoundReturns", append(guards(findFunc(tally, "", "valueLowerBound")), returnsIn(findFunc(tally, "", "valueLowerBound"))...), "valueLowerBound guard and returns")
	o.strs("durationLowerBoundReturns", append(guards(findFunc(tally, "", "durationLowerBound")), returnsIn(findFunc(tally, "", "durationLowerBound"))...), "durationLowerBound guard and returns")
	o.strs("timerRecordOps", syncOps(findFunc(tally, "timer", "Record"), map[string]bool{"ReportTimer": true}), "(*timer).Record")
	o.strs("bucketCacheGetOps", syncOps(findFunc(tally, "bucketCache", "Get"), map[string]bool{"bucketsEqual": true, "newBucketStorage": true, "getBucketsIdentity": true}), "(*bucketCache).Get")

	// histogram.go
	for _, n := range []string{"LinearValueBuckets", "LinearDurationBuckets", "ExponentialValueBuckets", "ExponentialDurationBuckets"} {
		o.strs("guards"+n, guards(findFunc(tally, "", n)), n+" error guards")
	}
	o.strs("valueBucketsLess", returnsIn(findFunc(tally, "ValueBuckets", "Less")), "ValueBuckets.Less")
	o.strs("durationBucketsLess", returnsIn(findFunc(tally, "DurationBuckets", "Less")), "DurationBuckets.Less")
	// C20: constructor loop bodies, Must variants, copy-before-sort, the equality re-check, the identity hash
	for _, n := range []string{"LinearValueBuckets", "LinearDurationBuckets", "ExponentialValueBuckets", "ExponentialDurationBuckets"} {
		o.strs("loop"+n, loopAssigns(findFunc(tally, "", n)), n+" loop body assignments")
		o.strs("must"+n, append(guards(findFunc(tally, "", "MustMake"+n)), syncOps(findFunc(tally, "", "MustMake"+n), map[string]bool{n: true, "panic": true})...), "MustMake"+n+": guard and calls")
	}
	o.strs("copyAndSortValuesOps", syncOps(findFunc(tally, "", "copyAndSortValues"), map[string]bool{"make": true, "copy": true, "Sort": true}), "copyAndSortValues")
	o.strs("copyAndSortDurationsOps", syncOps(findFunc(tally, "", "copyAndSortDurations"), map[string]bool{"make": true, "copy": true, "Sort": true}), "copyAndSortDurations")
	o.strs("bucketPairsSortCalls", syncOps(findFunc(tally, "", "BucketPairs"), map[string]bool{"copyAndSortValues": true, "copyAndSortDurations": true, "Sort": true, "Swap": true}), "BucketPairs: every sorting call")
	o.strs("bucketsEqualComparisons", comparisons(findFunc(tally, "", "bucketsEqual")), "comparisons in bucketsEqual")
	o.strs("bucketsEqualReturns", returnsIn(findFunc(tally, "", "bucketsEqual")), "returns of bucketsEqual")
	o.strs("bucketCacheGetConds", ifConds(findFunc(tally, "bucketCache", "Get")), "if conditions in (*bucketCache).Get")
	o.strs("bucketCacheGetAssigns", assignsIn(findFunc(tally, "bucketCache", "Get")), "assignments in (*bucketCache).Get")
	o.strs("getBucketsIdentityReturns", returnsIn(findFunc(tally, "", "getBucketsIdentity")), "getBucketsIdentity")
	o.strs("identityAddUint64Returns", returnsIn(findFunc(ident, "Accumulator", "AddUint64")), "identity: Accumulator.AddUint64")
	o.strs("identityNewAccumulatorReturns", returnsIn(findFunc(ident, "", "NewAccumulator")), "identity: NewAccumulator")
	o.strs("identityDurationsShape", append(append(guards(findFunc(ident, "", "Durations")), loopAssigns(findFunc(ident, "", "Durations"))...), returnsIn(findFunc(ident, "", "Durations"))...), "identity.Durations: guard, loop body, returns")
	o.strs("identityFloat64sShape", append(append(guards(findFunc(ident, "", "Float64s")), loopAssigns(findFunc(ident, "", "Float64s"))...), returnsIn(findFunc(ident, "", "Float64s"))...), "identity.Float64s: guard, loop body, returns")

	// scope.go
	if e := constValue(tally, "DefaultSeparator"); e != nil {
		s, _ := strconv.Unquote(exprStr(e))
		o.str("defaultSeparator", s, "scope.go: DefaultSeparator")
	} else {
		o.str("defaultSeparator", "", "scope.go: DefaultSeparator (NOT FOUND)")
	}
	var defb []string
	if e := constValue(tally, "defaultScopeBuckets"); e != nil {
		if cl, ok := e.(*ast.CompositeLit); ok {
			for _, el := range cl.Elts {
				if v, ok := evalInt(el, tally); ok {
					defb = append(defb, strconv.FormatInt(v, 10))
				} else {
					defb = append(defb, "?"+exprStr(el))
				}
			}
		}
	}
	fmt.Fprintf(&o.b, "/-- scope.go: defaultScopeBuckets in nanoseconds -/\ndef defaultScopeBuckets : List String := %s\n\n", leanStrList(defb))
	o.strs("scopeCloseOps", syncOps(findFunc(tally, "scope", "Close"), map[string]bool{"reportRegistry": true, "Close": true, "purge": true, "Report": true, "CachedReport": true, "Flush": true}), "(*scope).Close")
	o.strs("reportLoopRunOps", syncOps(findFunc(tally, "scope", "reportLoopRun"), map[string]bool{"reportRegistry": true}), "(*scope).reportLoopRun")
	o.strs("reportRegistryOps", syncOps(findFunc(tally, "scope", "reportRegistry"), map[string]bool{"Report": true, "CachedReport": true, "Flush": true}), "(*scope).reportRegistry")
	o.strs("fullyQualifiedNameReturns", append(guards(findFunc(tally, "scope", "fullyQualifiedName")), returnsIn(findFunc(tally, "scope", "fullyQualifiedName"))...), "(*scope).fullyQualifiedName")
	o.strs("registryReportOps", syncOps(findFunc(tally, "scopeRegistry", "Report"), map[string]bool{"report": true, "removeWithRLock": true, "clearMetrics": true, "purgeIfRootClosed": true, "reportInternalMetrics": true}), "(*scopeRegistry).Report")
	o.strs("registryCachedReportOps", syncOps(findFunc(tally, "scopeRegistry", "CachedReport"), map[string]bool{"cachedReport": true, "removeWithRLock": true, "clearMetrics": true, "purgeIfRootClosed": true, "reportInternalMetrics": true}), "(*scopeRegistry).CachedReport")
	o.strs("removeWithRLockOps", syncOps(findFunc(tally, "scopeRegistry", "removeWithRLock"), map[string]bool{"delete": true}), "(*scopeRegistry).removeWithRLock")
	o.strs("scopeGaugeOps", syncOps(findFunc(tally, "scope", "Gauge"), map[string]bool{"gauge": true, "AllocateGauge": true, "newGauge": true}), "(*scope).Gauge")
	o.strs("scopeTimerOps", syncOps(findFunc(tally, "scope", "Timer"), map[string]bool{"timer": true, "AllocateTimer": true, "newTimer": true}), "(*scope).Timer")
	o.strs("scopeHistogramOps", syncOps(findFunc(tally, "scope", "Histogram"), map[string]bool{"histogram": true, "AllocateHistogram": true, "newHistogram": true, "Get": true}), "(*scope).Histogram")
	o.strs("scopeCounterProbeOps", syncOps(findFunc(tally, "scope", "counter"), nil), "(*scope).counter (read-locked probe)")
	o.strs("registrySubscopeOps", syncOps(findFunc(tally, "scopeRegistry", "Subscope"), map[string]bool{"lockedLookup": true, "removeWithRLock": true, "clearMetrics": true, "report": true, "cachedReport": true, "delete": true}), "(*scopeRegistry).Subscope")
	o.strs("registryPurgeOps", syncOps(findFunc(tally, "scopeRegistry", "purge"), map[string]bool{"Close": true, "clearMetrics": true, "delete": true}), "(*scopeRegistry).purge")
	o.strs("removeWithRLockComparisons", comparisons(findFunc(tally, "scopeRegistry", "removeWithRLock")), "comparisons in removeWithRLock (removal by identity)")
	o.strs("scopeCloseGuards", guards(findFunc(tally, "scope", "Close")), "(*scope).Close guards")
	o.strs("scopeCounterOps", syncOps(findFunc(tally, "scope", "Counter"), map[string]bool{"counter": true, "AllocateCounter": true, "newCounter": true}), "(*scope).Counter")

	// sanitize.go
	o.strs("sanitizeComparisons", comparisons(findFunc(tally, "ValidCharacters", "sanitizeFn")), "comparisons in sanitizeFn")

	// identity
	o.int("hashSeed", constValue(ident, "_hashSeed"), ident, "identity: _hashSeed")
	o.int("hashFold", constValue(ident, "_hashFold"), ident, "identity: _hashFold")

	// m3
	o.int("emitMetricBatchOverhead", constValue(m3, "_emitMetricBatchOverhead"), m3, "m3: _emitMetricBatchOverhead")
	o.int("minMetricBucketIDTagLength", constValue(m3, "_minMetricBucketIDTagLength"), m3, "m3: _minMetricBucketIDTagLength")
	o.int("defaultMaxPacketSize", constValue(m3, "DefaultMaxPacketSize"), m3, "m3: DefaultMaxPacketSize")
	o.int("defaultMaxQueueSize", constValue(m3, "DefaultMaxQueueSize"), m3, "m3: DefaultMaxQueueSize")
	o.strs("m3ReportCopyMetricOps", syncOps(findFunc(m3, "reporter", "reportCopyMetric"), nil), "m3 (*reporter).reportCopyMetric")
	o.strs("m3FlushOps", syncOps(findFunc(m3, "reporter", "Flush"), map[string]bool{"reportInternalMetrics": true}), "m3 (*reporter).Flush")
	o.strs("m3CloseOps", syncOps(findFunc(m3, "reporter", "Close"), nil), "m3 (*reporter).Close")
	o.strs("m3ProcessComparisons", comparisons(findFunc(m3, "reporter", "process")), "comparisons in m3 (*reporter).process")
	// C14: complete bodies of the life-cycle functions (hook positions included), the calls made by Flush's
	// reportInternalMetrics, the queue-size guard and the worker start-up of NewReporter
	o.strs("m3LifeReportBody", topStmts(findFunc(m3, "reporter", "reportCopyMetric")), "m3 (*reporter).reportCopyMetric: top-level statements")
	o.strs("m3LifeFlushBody", topStmts(findFunc(m3, "reporter", "Flush")), "m3 (*reporter).Flush: top-level statements")
	o.strs("m3LifeCloseBody", topStmts(findFunc(m3, "reporter", "Close")), "m3 (*reporter).Close: top-level statements")
	o.strs("m3LifeTimeLoopBody", topStmts(findFunc(m3, "reporter", "timeLoop")), "m3 (*reporter).timeLoop: top-level statements")
	o.strs("m3LifeProcessShape", bodyShape(findFunc(m3, "reporter", "process")), "m3 (*reporter).process: signature, statements (range loop expanded one level)")
	o.strs("m3LifeInternalMetricsOps", syncOps(findFunc(m3, "reporter", "reportInternalMetrics"), map[string]bool{"ReportSamples": true, "ReportCount": true, "ReportGauge": true, "ReportTimer": true, "reportCopyMetric": true}), "m3 (*reporter).reportInternalMetrics: atomic swaps and report calls")
	o.strs("m3LifeNewReporterOps", syncOps(findFunc(m3, "", "NewReporter"), map[string]bool{"process": true, "timeLoop": true}), "m3 NewReporter: wait-group operations and worker start-up")
	o.strs("m3LifeNewReporterComparisons", comparisons(findFunc(m3, "", "NewReporter")), "comparisons in m3 NewReporter")
	o.strs("m3LifeNewReporterMakes", func() []string {
		var out []string
		if fd := findFunc(m3, "", "NewReporter"); fd != nil {
			ast.Inspect(fd.Body, func(n ast.Node) bool {
				if ce, ok := n.(*ast.CallExpr); ok {
					if id, ok := ce.Fun.(*ast.Ident); ok && id.Name == "make" && len(ce.Args) > 0 {
						if _, ok := ce.Args[0].(*ast.ChanType); ok {
							out = append(out, exprStr(ce))
						}
					}
				}
				return true
			})
		}
		return out
	}(), "channels made by m3 NewReporter")
	o.str("m3LifeErrAlreadyClosed", exprStr(constValue(m3, "errAlreadyClosed")), "m3: errAlreadyClosed")
	for _, n := range []string{"ReportCount", "ReportGauge", "ReportTimer"} {
		o.strs("m3LifeCached"+n, topStmts(findFunc(m3, "cachedMetric", n)), "m3 cachedMetric."+n+": top-level statements")
	}

	// m3 size accounting, tag conversion, clock initialisation (C12, C13)
	o.strs("m3NewReporterSizes", varSpecs(findFunc(m3, "", "NewReporter"), map[string]bool{"numOverheadBytes": true, "freeBytes": true}), "m3 NewReporter: overhead and free bytes")
	o.strs("m3NewReporterConds", filterContains(ifConds(findFunc(m3, "", "NewReporter")), "freeBytes"), "m3 NewReporter: the free-bytes guard")
	o.strs("m3NewReporterClockStores", callsIn(findFunc(m3, "", "NewReporter"), "r.now.Store"), "m3 NewReporter: stores to the clock cell before the goroutines start")
	o.strs("m3AllocateHistogramSizes", filterContains(assignsIn(findFunc(m3, "reporter", "AllocateHistogram")), "metric.size"), "m3 (*reporter).AllocateHistogram: assignments to a bucket's charged size")
	o.strs("m3CalculateBucketSize", topStmts(findFunc(m3, "reporter", "calculateBucketSize")), "m3 (*reporter).calculateBucketSize (absent in the pinned tree)")
	o.strs("m3CalculateSize", topStmts(findFunc(m3, "reporter", "calculateSize")), "m3 (*reporter).calculateSize")
	o.strs("m3ConvertTagsCalls", callsIn(findFunc(m3, "reporter", "convertTags"), ""), "m3 (*reporter).convertTags: calls")
	o.strs("m3ConvertTagsConds", ifConds(findFunc(m3, "reporter", "convertTags")), "m3 (*reporter).convertTags: conditions")
	o.strs("m3TagsMatch", topStmts(findFunc(m3, "", "tagsMatch")), "m3 tagsMatch (absent in the pinned tree)")
	o.strs("m3TimeLoopCalls", callsIn(findFunc(m3, "reporter", "timeLoop"), "r.now.Store"), "m3 (*reporter).timeLoop: stores to the clock cell")
	o.strs("m3ProcessBytesAssigns", filterContains(assignsIn(findFunc(m3, "reporter", "process")), "bytes"), "m3 (*reporter).process: assignments to bytes")

	// thriftudp
	o.int("udpMaxLength", constValue(udp, "MaxLength"), udp, "thriftudp: MaxLength")
	o.strs("udpWriteComparisons", comparisons(findFunc(udp, "TUDPTransport", "Write")), "comparisons in TUDPTransport.Write")
	o.strs("udpFlushOps", syncOps(findFunc(udp, "TUDPTransport", "Flush"), map[string]bool{"Write": true, "Reset": true, "IsOpen": true}), "TUDPTransport.Flush")
	udpCalls := map[string]bool{"IsOpen": true, "Len": true, "Write": true, "WriteByte": true, "WriteString": true, "Reset": true, "Close": true, "Flush": true}
	o.strs("udpWriteOps", syncOps(findFunc(udp, "TUDPTransport", "Write"), udpCalls), "TUDPTransport.Write")
	o.strs("udpWriteByteOps", syncOps(findFunc(udp, "TUDPTransport", "WriteByte"), udpCalls), "TUDPTransport.WriteByte")
	o.strs("udpWriteByteComparisons", comparisons(findFunc(udp, "TUDPTransport", "WriteByte")), "comparisons in TUDPTransport.WriteByte")
	o.strs("udpWriteStringOps", syncOps(findFunc(udp, "TUDPTransport", "WriteString"), udpCalls), "TUDPTransport.WriteString")
	o.strs("udpWriteStringComparisons", comparisons(findFunc(udp, "TUDPTransport", "WriteString")), "comparisons in TUDPTransport.WriteString")
	o.strs("udpFlushReturns", returnsIn(findFunc(udp, "TUDPTransport", "Flush")), "TUDPTransport.Flush returns")
	for _, m := range []string{"Write", "WriteByte", "WriteString", "Flush"} {
		fd := findFunc(udp, "TUDPTransport", m)
		o.strs("udp"+m+"Guards", guards(fd), "TUDPTransport."+m+": conditions of the top-level ifs")
		o.strs("udp"+m+"Assigns", fieldAssigns(fd), "TUDPTransport."+m+": field assignments")
	}
	o.strs("udpCloseOps", syncOps(findFunc(udp, "TUDPTransport", "Close"), udpCalls), "TUDPTransport.Close")
	o.strs("udpCloseComparisons", guards(findFunc(udp, "TUDPTransport", "Close")), "TUDPTransport.Close guard")
	o.strs("udpIsOpenReturns", returnsIn(findFunc(udp, "TUDPTransport", "IsOpen")), "TUDPTransport.IsOpen")
	for _, m := range []string{"Write", "Flush", "Close", "IsOpen"} {
		fd := findFunc(udp, "TMultiUDPTransport", m)
		o.strs("udpMulti"+m+"Ops", syncOps(fd, udpCalls), "TMultiUDPTransport."+m+": calls in the loop")
		o.strs("udpMulti"+m+"Comparisons", comparisons(fd), "TMultiUDPTransport."+m+": comparisons")
		o.strs("udpMulti"+m+"Returns", returnsIn(fd), "TMultiUDPTransport."+m+": returns")
		o.strs("udpMulti"+m+"Branches", branches(fd), "TMultiUDPTransport."+m+": break/continue")
	}
	m3v2 := parseDir(filepath.Join(root, "m3", "thrift", "v2"))
	o.strs("m3SendEmitOps", syncOps(findFunc(m3v2, "M3Client", "sendEmitMetricBatchV2"), map[string]bool{"WriteMessageBegin": true, "Write": true, "WriteMessageEnd": true, "Flush": true}), "M3Client.sendEmitMetricBatchV2: protocol calls")
	o.strs("m3ReporterFlushOps", syncOps(findFunc(m3, "reporter", "flush"), map[string]bool{"EmitMetricBatchV2": true, "Flush": true, "TypeId": true}), "m3 (*reporter).flush: emit, count the error, discard")
	o.strs("m3ReporterFlushComparisons", comparisons(findFunc(m3, "reporter", "flush")), "m3 (*reporter).flush: comparisons")
	o.strs("m3SendEmitReturns", returnsIn(findFunc(m3v2, "M3Client", "sendEmitMetricBatchV2")), "M3Client.sendEmitMetricBatchV2: returns")

	// multi (C19): complete bodies of the constructors and of every forwarding method
	for _, m := range [][3]string{
		{"multiNew", "", "NewMultiReporter"}, {"multiNewCached", "", "NewMultiCachedReporter"},
		{"multiReportCounter", "multi", "ReportCounter"}, {"multiReportGauge", "multi", "ReportGauge"},
		{"multiReportTimer", "multi", "ReportTimer"},
		{"multiReportHistogramValueSamples", "multi", "ReportHistogramValueSamples"},
		{"multiReportHistogramDurationSamples", "multi", "ReportHistogramDurationSamples"},
		{"multiCapabilities", "multi", "Capabilities"}, {"multiFlush", "multi", "Flush"},
		{"multiCachedAllocateCounter", "multiCached", "AllocateCounter"}, {"multiCachedAllocateGauge", "multiCached", "AllocateGauge"},
		{"multiCachedAllocateTimer", "multiCached", "AllocateTimer"}, {"multiCachedAllocateHistogram", "multiCached", "AllocateHistogram"},
		{"multiCachedCapabilities", "multiCached", "Capabilities"}, {"multiCachedFlush", "multiCached", "Flush"},
		{"multiMetricReportCount", "multiMetric", "ReportCount"}, {"multiMetricReportGauge", "multiMetric", "ReportGauge"},
		{"multiMetricReportTimer", "multiMetric", "ReportTimer"}, {"multiMetricValueBucket", "multiMetric", "ValueBucket"},
		{"multiMetricDurationBucket", "multiMetric", "DurationBucket"},
		{"multiHistogramBucketReportSamples", "multiHistogramBucket", "ReportSamples"},
		{"multiBaseCapabilities", "multiBaseReporters", "Capabilities"}, {"multiBaseFlush", "multiBaseReporters", "Flush"},
	} {
		o.strs(m[0], bodyShape(findFunc(multi, m[1], m[2])), "multi/reporter.go: "+m[1]+"."+m[2]+" (signature, statements)")
	}
	for _, t := range []string{"multi", "multiCached", "multiMetric", "multiHistogramBucket", "multiBaseReporters"} {
		o.strs("multiType_"+t, structFields(multi, t), "multi/reporter.go: type "+t)
	}
	// statsd
	o.int("statsdDefaultPrecision", constValue(statsd, "DefaultHistogramBucketNamePrecision"), statsd, "statsd: DefaultHistogramBucketNamePrecision")
	o.strs("statsdNewReporter", topStmts(findFunc(statsd, "", "NewReporter")), "statsd NewReporter: top-level statements")
	for _, n := range []string{"ReportCounter", "ReportGauge", "ReportTimer", "ReportHistogramValueSamples", "ReportHistogramDurationSamples",
		"valueBucketString", "durationBucketString", "Capabilities", "Reporting", "Tagging"} {
		o.strs("statsd"+strings.ToUpper(n[:1])+n[1:], topStmts(findFunc(statsd, "cactusStatsReporter", n)), "statsd (*cactusStatsReporter)."+n+": top-level statements")
	}

	// prometheus reporter
	o.str("promSummaryVecHitShape", hitShape(findFunc(prom, "reporter", "summaryVec"), "summary"), "prometheus summaryVec: what a cache hit returns")
	o.str("promHistogramVecHitShape", hitShape(findFunc(prom, "reporter", "histogramVec"), "histogram"), "prometheus histogramVec: what a cache hit returns")
	hitStmts := func(name string) []string {
		if b := cacheHitBody(findFunc(prom, "reporter", name)); b != nil {
			return flatStmts(b.List)
		}
		return nil
	}
	o.strs("promSummaryVecHit", hitStmts("summaryVec"), "prometheus summaryVec: statements of the cache-hit branch")
	o.strs("promHistogramVecHit", hitStmts("histogramVec"), "prometheus histogramVec: statements of the cache-hit branch")
	o.strs("promCounterVecStmts", funcStmts(findFunc(prom, "reporter", "counterVec")), "prometheus counterVec, flattened")
	o.strs("promGaugeVecStmts", funcStmts(findFunc(prom, "reporter", "gaugeVec")), "prometheus gaugeVec, flattened")
	fmt.Fprintf(&o.b, "/-- help argument suffixes at the vector-getter calls of the Allocate functions -/\ndef promHelpSuffixes : List (String × List UInt8) := %s\n\n",
		helpSuffixes(prom, []string{"AllocateCounter", "AllocateGauge", "AllocateTimer", "AllocateHistogram"}))
	o.strs("promCanonicalMetricIDStmts", funcStmts(findFunc(prom, "", "canonicalMetricID")), "prometheus canonicalMetricID, flattened")
	for _, n := range []string{"AllocateCounter", "AllocateGauge", "AllocateTimer", "AllocateHistogram"} {
		o.strs("promErrBranch"+n, errBranch(findFunc(prom, "reporter", n)), "prometheus "+n+": the err != nil branch")
	}
	o.strs("promReportSamplesStmts", funcStmts(findFunc(prom, "cachedHistogramBucket", "ReportSamples")), "prometheus cachedHistogramBucket.ReportSamples")
	o.strs("promValueBucketStmts", funcStmts(findFunc(prom, "cachedMetric", "ValueBucket")), "prometheus cachedMetric.ValueBucket")
	o.strs("promDurationBucketStmts", funcStmts(findFunc(prom, "cachedMetric", "DurationBucket")), "prometheus cachedMetric.DurationBucket")
	o.strs("promReportCountStmts", funcStmts(findFunc(prom, "cachedMetric", "ReportCount")), "prometheus cachedMetric.ReportCount")
	o.strs("promReportGaugeStmts", funcStmts(findFunc(prom, "cachedMetric", "ReportGauge")), "prometheus cachedMetric.ReportGauge")
	o.strs("promReportTimerHistogramStmts", funcStmts(findFunc(prom, "cachedMetric", "reportTimerHistogram")), "prometheus cachedMetric.reportTimerHistogram")
	o.strs("promReportTimerSummaryStmts", funcStmts(findFunc(prom, "cachedMetric", "reportTimerSummary")), "prometheus cachedMetric.reportTimerSummary")
	o.strs("durationBucketsAsValuesStmts", funcStmts(findFunc(tally, "DurationBuckets", "AsValues")), "DurationBuckets.AsValues")
	o.strs("valueBucketsAsValuesStmts", funcStmts(findFunc(tally, "ValueBuckets", "AsValues")), "ValueBuckets.AsValues")
	o.strs("histogramCachedReportStmts", funcStmts(findFunc(tally, "histogram", "cachedReport")), "(*histogram).cachedReport, flattened")

	// vendored thrift writers, generated M3 types and the counting transport (C16): complete bodies. Model/Thrift.lean
	// was written by hand against exactly these bodies; TallyProofs/Tie/C16.lean freezes them, so that any edit of an
	// encoder shows up as a broken tie (and the differential then looks for a concrete batch).
	thr := parseDir(filepath.Join(root, "thirdparty", "github.com", "apache", "thrift", "lib", "go", "thrift"))
	for _, n := range []string{"WriteMessageBegin", "WriteMessageEnd", "WriteStructBegin", "WriteStructEnd", "WriteFieldBegin", "writeFieldBeginInternal",
		"WriteFieldEnd", "WriteFieldStop", "WriteListBegin", "WriteListEnd", "WriteBool", "WriteByte", "WriteI16", "WriteI32", "WriteI64", "WriteDouble",
		"WriteString", "WriteBinary", "writeCollectionBegin", "writeVarint32", "writeVarint64", "int64ToZigzag", "int32ToZigzag", "writeByteDirect",
		"writeIntAsByteDirect", "getCompactType", "Flush"} {
		o.strs("thriftCompact_"+n, bodyShape(findFunc(thr, "TCompactProtocol", n)), "thrift TCompactProtocol."+n+" (signature, statements)")
	}
	for _, n := range []string{"WriteMessageBegin", "WriteMessageEnd", "WriteStructBegin", "WriteStructEnd", "WriteFieldBegin", "WriteFieldEnd", "WriteFieldStop",
		"WriteListBegin", "WriteListEnd", "WriteBool", "WriteByte", "WriteI16", "WriteI32", "WriteI64", "WriteDouble", "WriteString", "WriteBinary", "Flush"} {
		o.strs("thriftBinary_"+n, bodyShape(findFunc(thr, "TBinaryProtocol", n)), "thrift TBinaryProtocol."+n+" (signature, statements)")
	}
	for _, recv := range []string{"MetricValue", "MetricTag", "Metric", "MetricBatch", "M3EmitMetricBatchV2Args"} {
		for _, n := range methodNames(m3v2, recv, "Write", "writeField") {
			o.strs("m3v2_"+recv+"_"+n, bodyShape(findFunc(m3v2, recv, n)), "m3/thrift/v2 ("+recv+")."+n+" (signature, statements)")
		}
	}
	calc := parseDir(filepath.Join(root, "m3", "customtransports"))
	for _, n := range methodNames(calc, "TCalcTransport", "") {
		o.strs("calcTransport_"+n, bodyShape(findFunc(calc, "TCalcTransport", n)), "m3/customtransports TCalcTransport."+n+" (signature, statements)")
	}
	// the receiving side (C16, "decoding again"): the generated readers, the processor, the read transport a server
	// hands datagrams to, and the vendored protocol readers.  The Lean decoder is tied to them by the differential; their
	// bodies are frozen as well, so that an edit shows up even where no sampled batch tells the difference.
	for _, recv := range []string{"MetricValue", "MetricTag", "Metric", "MetricBatch", "M3EmitMetricBatchV2Args"} {
		for _, n := range methodNames(m3v2, recv, "Read", "readField") {
			o.strs("m3v2_"+recv+"_"+n, bodyShape(findFunc(m3v2, recv, n)), "m3/thrift/v2 ("+recv+")."+n+" (signature, statements)")
		}
	}
	for _, recv := range []string{"M3Processor", "m3ProcessorEmitMetricBatchV2"} {
		for _, n := range methodNames(m3v2, recv, "") {
			o.strs("m3v2_"+recv+"_"+n, bodyShape(findFunc(m3v2, recv, n)), "m3/thrift/v2 ("+recv+")."+n+" (signature, statements)")
		}
	}
	for _, n := range methodNames(calc, "TBufferedReadTransport", "") {
		o.strs("calcTransport_bufferedRead_"+n, bodyShape(findFunc(calc, "TBufferedReadTransport", n)), "m3/customtransports TBufferedReadTransport."+n+" (signature, statements)")
	}
	for _, n := range methodNames(thr, "TCompactProtocol", "Read", "read") {
		o.strs("thriftCompact_"+n, bodyShape(findFunc(thr, "TCompactProtocol", n)), "thrift TCompactProtocol."+n+" (signature, statements)")
	}
	for _, n := range methodNames(thr, "TBinaryProtocol", "Read", "read") {
		o.strs("thriftBinary_"+n, bodyShape(findFunc(thr, "TBinaryProtocol", n)), "thrift TBinaryProtocol."+n+" (signature, statements)")
	}

	// complete bodies of every function of the files the hand-written models mirror (frozen per property in
	// TallyProofs/Tie/CxxFrozen.lean, see tools/frozen_map.py)
	for _, pk := range []struct {
		tag   string
		files pkgFiles
	}{{"tally", tally}, {"instrument", instr}, {"m3", m3}, {"thriftudp", udp}, {"prometheus", prom}, {"cache", cache}, {"identity", ident}} {
		for _, fn := range allFuncs(pk.files) {
			o.strs("body_"+pk.tag+"_"+fn[0]+"_"+fn[1], bodyShape(findFunc(pk.files, fn[0], fn[1])), pk.tag+": ("+fn[0]+")."+fn[1]+" (signature, statements)")
		}
	}

	// instrument
	o.strs("instrumentExecOps", syncOps(findFunc(instr, "call", "Exec"), map[string]bool{"Start": true, "Stop": true, "f": true}), "instrument (*call).Exec")

	o.b.WriteString("end Tally.Facts\n")
	// deterministic output
	_ = sort.Strings
	fmt.Print(o.b.String())
}
