#!/usr/bin/env python3
"""Regenerates MANIFEST.json from tools/props_table.py and tools/manifest_texts.py."""
import json, os, sys
sys.path.insert(0, os.path.dirname(__file__))
from props_table import PROPS
from manifest_texts import TEXTS, NOT_APPLICABLE, HOOK_COMMITS

props = [json.loads(l)["id"] for l in open(os.path.join(os.path.dirname(__file__), "..", "properties.jsonl"))]
checks = []
for p in props:
    if p not in PROPS or p not in TEXTS:
        continue
    t = TEXTS[p]
    checks.append({
        "property_id": p,
        "quick_cmd": "./check %s quick" % p,
        "thorough_cmd": "./check %s thorough" % p,
        "evidence_file": "/verif/evidence/%s.json" % p,
        "replay_cmd_template": "./check %s --replay {path}" % p,
        "engine": "lean4-proof+correspondence",
        "level_claimed": {"category": "proof", "text": t["text"], "design_ref": t.get("design_ref", "DESIGN.md section 5, " + p)},
        "level_note": t["note"],
        "technique": t["technique"],
    })
na = [{"property_id": p, "reason": NOT_APPLICABLE.get(p, "check not built yet in this snapshot; see DESIGN.md section 5")} for p in props if p not in [c["property_id"] for c in checks]]
m = {
    "version": 1,
    "setup_cmd": "./setup.sh",
    "hooks": {
        "guard": "verif",
        "enable": "go build -tags verif (harness module with `replace github.com/uber-go/tally/v4 => /repo`)",
        "baseline_off_cmd": "for m in $(cat /w/out/gomods.txt); do MF=$(cd /repo/$m && . /w/out/goenv.sh && gomodflag); (cd /repo/$m && go test $MF -json -vet=off -count=1 -timeout 25m ./...); done",
        "source_commits": HOOK_COMMITS,
        "add_only": True,
    },
    "engines": [
        {"name": "lean4-proof+correspondence", "path": "/verif/lean", "serves_properties": [c["property_id"] for c in checks],
         "kind_free_text": "Lean 4 models (Tally/Model), decidable spec predicates (Tally/Spec), property theorems (TallyProofs/Props), tie theorems over facts regenerated from /repo (TallyProofs/Tie), compiled driver tallydrv used as model+oracle by the Go harness"},
        {"name": "harness", "path": "/verif/harness", "serves_properties": [c["property_id"] for c in checks],
         "kind_free_text": "Go differential / trace-validation harness built against /repo with -tags verif on every run; cooperative scheduler on yield hooks for the concurrency properties"},
        {"name": "factgen", "path": "/verif/tools/factgen", "serves_properties": [c["property_id"] for c in checks],
         "kind_free_text": "go/ast fact extractor regenerating lean/Tally/Generated/Facts.lean on every run"},
    ],
    "checks": checks,
    "not_applicable": na,
    "notes": "Every check is ./check Cxx quick|thorough (tools/check.py). See DESIGN.md for the approach, trusted base and known findings (known_findings.json).",
}
json.dump(m, open(os.path.join(os.path.dirname(__file__), "..", "MANIFEST.json"), "w"), indent=1)
print("checks:", [c["property_id"] for c in checks], "n/a:", len(na))
