#!/usr/bin/env python3
"""Regenerate the suites-per-check table of DESIGN.md (between the SUITES-TABLE markers) from tools/props_table.py."""
import os, re, sys
sys.path.insert(0, os.path.dirname(os.path.abspath(__file__)))
import props_table
ROOT = os.path.dirname(os.path.dirname(os.path.abspath(__file__)))
rows = ["| check | suites it runs (quick and thorough; a suite may serve several checks) |", "|---|---|"]
for pid in sorted(props_table.PROPS):
    rows.append("| %s | %s |" % (pid, ", ".join("`%s`" % s for s in props_table.PROPS[pid]["suites"])))
p = os.path.join(ROOT, "DESIGN.md")
s = open(p).read()
s2 = re.sub(r"(<!-- SUITES-TABLE-BEGIN -->\n).*?(<!-- SUITES-TABLE-END -->)", lambda m: m.group(1) + "\n".join(rows) + "\n" + m.group(2), s, flags=re.S)
open(p, "w").write(s2)
print("suites table:", "updated" if s != s2 else "unchanged")
