#!/usr/bin/env python3
"""check.py <Cxx> quick|thorough   |   check.py <Cxx> --replay <file>

One run of one property check (see DESIGN.md section 3.1):
  1. regenerate lean/Tally/Generated/Facts.lean from /repo (factgen, go/ast)
  2. lake build the model, the tie theorems and the property theorems of Cxx; audit axioms
  3. build the harness against /repo's working tree with -tags verif and run the suites of Cxx
     (implementation in-process, Lean driver as oracle and model)
  4. if an obligation or the correspondence broke: search for a concrete failing input
  5. match concrete violations against known_findings.json, write evidence, print verdict lines
Exit 0: held on everything explored.  Exit 1: VIOLATION line(s) printed.  Exit 2: machinery error.
"""
import fcntl
import json
import os
import re
import shutil
import subprocess
import sys
import time

VERIF = os.path.dirname(os.path.dirname(os.path.abspath(__file__)))
LEAN = os.path.join(VERIF, "lean")
BIN = os.path.join(VERIF, "bin")
REPO = os.environ.get("VERIF_REPO", "/repo")  # override only for evaluating seeded changes in a scratch worktree
ALLOWED_AXIOMS = {"propext", "Classical.choice", "Quot.sound"}
FORBIDDEN = re.compile(r"\bsorry\b|\badmit\b|^\s*axiom\s|native_decide|bv_decide|implemented_by|\bunsafe\s|maxHeartbeats\s+0", re.M)

GOENV = dict(os.environ, GOFLAGS="-mod=mod", GOPROXY="off", GOSUMDB="off", GOTOOLCHAIN="local", CGO_ENABLED="0")

# property -> suites (harness suite names), per-tier timeouts
from props_table import PROPS  # noqa: E402


def log(*a):
    print(*a, file=sys.stderr, flush=True)


def run(cmd, cwd=None, env=None, timeout=None):
    t0 = time.time()
    try:
        p = subprocess.run(cmd, cwd=cwd, env=env, stdout=subprocess.PIPE, stderr=subprocess.STDOUT, timeout=timeout, text=True, errors="replace")
        return p.returncode, p.stdout, time.time() - t0
    except subprocess.TimeoutExpired as e:
        out = e.stdout if isinstance(e.stdout, str) else (e.stdout or b"").decode(errors="replace")
        return 124, (out or "") + "\n[timeout after %ss]" % timeout, time.time() - t0


class Lock:
    def __init__(self, name):
        self.path = os.path.join(VERIF, ".lock-" + name)

    def __enter__(self):
        self.f = open(self.path, "w")
        fcntl.flock(self.f, fcntl.LOCK_EX)

    def __exit__(self, *a):
        fcntl.flock(self.f, fcntl.LOCK_UN)
        self.f.close()


def ensure_tools():
    os.makedirs(BIN, exist_ok=True)
    fg = os.path.join(BIN, "factgen")
    src = os.path.join(VERIF, "tools", "factgen", "main.go")
    if not os.path.exists(fg) or os.path.getmtime(fg) < os.path.getmtime(src):
        rc, out, _ = run(["go", "build", "-o", fg, "."], cwd=os.path.join(VERIF, "tools", "factgen"), env=GOENV)
        if rc != 0:
            log(out)
            sys.exit(2)
    return fg


def regen_facts():
    fg = ensure_tools()
    path = os.path.join(LEAN, "Tally", "Generated", "Facts.lean")
    rc, out, _ = run([fg, REPO])
    if rc != 0 or "namespace Tally.Facts" not in out:
        log("factgen failed:\n" + out)
        sys.exit(2)
    old = open(path).read() if os.path.exists(path) else None
    if old != out:  # written only when changed so that lake's traces stay valid; content is always from this run
        tmp = path + ".tmp"
        with open(tmp, "w") as f:
            f.write(out)
        os.replace(tmp, path)
    return out


def MODULES(prop):
    """(directory, module) pairs holding the obligations of a property: property theorems, tie theorems, and the
    frozen-body tie theorems where a hand-written model mirrors whole function bodies"""
    mods = []
    for sub in ("Props", "Tie"):
        d = os.path.join(LEAN, "TallyProofs", sub)
        for f in sorted(os.listdir(d)):
            # Cxx.lean, CxxFrozen.lean, CxxLife.lean, … (a suffix that starts with a letter, so C1 never matches C10)
            if re.match(r"^%s([A-Z][A-Za-z]*)?\.lean$" % re.escape(prop), f):
                mods.append((sub, f[:-5]))
    return mods


def theorem_names(prop):
    """theorems of Props/Cxx.lean and Tie/Cxx.lean, fully qualified (tracks namespace / section nesting)"""
    names = []
    for sub, mod in MODULES(prop):
        p = os.path.join(LEAN, "TallyProofs", sub, mod + ".lean")
        if not os.path.exists(p):
            continue
        stack = []  # (kind, name)
        for line in strip_comments(open(p).read()).split("\n"):
            m = re.match(r"^\s*(namespace|section)\s*([A-Za-z0-9_'.]*)\s*$", line)
            if m:
                stack.append((m.group(1), m.group(2)))
                continue
            m = re.match(r"^\s*end\s*([A-Za-z0-9_'.]*)\s*$", line)
            if m and stack:
                stack.pop()
                continue
            m = re.match(r"^\s*(?:@\[[^\]]*\]\s*)?(private\s+|protected\s+)?theorem\s+([^\s:({\[]+)", line)
            if m and (m.group(1) or "").strip() == "private":
                continue  # private names are mangled and cannot be named from the audit file; their axioms show up in their users
            if m:
                m = re.match(r"^\s*(?:@\[[^\]]*\]\s*)?(?:protected\s+)?theorem\s+([^\s:({\[]+)", line)
            if m:
                ns = ".".join(n for k, n in stack if k == "namespace" and n)
                nm = m.group(1)
                if nm.startswith("_root_."):
                    names.append((sub, nm[len("_root_."):]))
                else:
                    names.append((sub, (ns + "." if ns else "") + nm))
    return names


def lean_sources_for(prop):
    """all .lean files the property's theorems can depend on (for the forbidden-token scan)"""
    out = []
    for root, _, files in os.walk(LEAN):
        if ".lake" in root:
            continue
        for f in files:
            if f.endswith(".lean"):
                out.append(os.path.join(root, f))
    return out


def strip_comments(src):
    src = re.sub(r"/-.*?-/", "", src, flags=re.S)
    return re.sub(r"--.*", "", src)


def lean_stage(prop, tier):
    """returns dict(ok, obligations, discharged, broken:[names], axioms:{}, log)"""
    res = {"ok": True, "obligations": 0, "discharged": 0, "broken": [], "axioms": {}, "log": "", "leanchecker": None}
    targets = ["Tally", "tallydrv"]
    mods = [(sub, mod) for sub, mod in MODULES(prop) if os.path.exists(os.path.join(LEAN, "TallyProofs", sub, mod + ".lean"))]
    for sub, mod in mods:
        targets.append("TallyProofs.%s.%s" % (sub, mod))
    rc, out, dt = run(["lake", "build"] + targets, cwd=LEAN, timeout=1800)
    res["log"] = out[-6000:]
    names = theorem_names(prop)
    res["obligations"] = len(names)
    if rc != 0:
        res["ok"] = False
        # which module failed?
        failed = re.findall(r"^- (TallyProofs\.\S+|Tally\.\S+|Main\S*)", out, re.M)
        res["broken"] = failed or ["lake build"]
        # theorems of modules that still built are discharged; be conservative: count none of a failed module
        ok_names = [n for (sub, n) in names if not any(f.startswith("TallyProofs.%s.%s" % (sub, prop)) for f in failed)]
        if any(f.startswith("Tally.") or f.startswith("Main") for f in failed):
            ok_names = []
        res["discharged"] = len(ok_names)
        return res
    # forbidden tokens
    for p in lean_sources_for(prop):
        m = FORBIDDEN.search(strip_comments(open(p).read()))
        if m:
            res["ok"] = False
            res["broken"].append("forbidden token %r in %s" % (m.group(0), os.path.relpath(p, LEAN)))
    # axiom audit
    audit_dir = os.path.join(LEAN, ".lake", "audit")
    os.makedirs(audit_dir, exist_ok=True)
    apath = os.path.join(audit_dir, prop + ".lean")
    with open(apath, "w") as f:
        for sub, mod in mods:
            f.write("import TallyProofs.%s.%s\n" % (sub, mod))
        for _, n in names:
            f.write("#print axioms %s\n" % n)
    rc, out, _ = run(["lake", "env", "lean", apath], cwd=LEAN, timeout=600)
    if rc != 0:  # e.g. an olean being rewritten by a concurrent build: build once more and retry
        run(["lake", "build"] + targets, cwd=LEAN, timeout=1800)
        rc, out, _ = run(["lake", "env", "lean", apath], cwd=LEAN, timeout=600)
    if rc != 0:
        res["ok"] = False
        res["broken"].append("axiom audit failed: " + out[-500:])
        return res
    for m in re.finditer(r"'(\S+)' (does not depend on any axioms|depends on axioms: \[([^\]]*)\])", out.replace("\n", " ")):
        axs = set(a.strip() for a in (m.group(3) or "").split(",") if a.strip())
        res["axioms"][m.group(1)] = sorted(axs)
        if axs - ALLOWED_AXIOMS:
            res["ok"] = False
            res["broken"].append("%s depends on %s" % (m.group(1), sorted(axs - ALLOWED_AXIOMS)))
    missing = [n for _, n in names if n not in res["axioms"]]
    if missing:
        res["ok"] = False
        res["broken"] += ["not audited: " + n for n in missing]
    res["discharged"] = len(names) - len(missing) if res["ok"] else len([n for _, n in names if n in res["axioms"] and not (set(res["axioms"][n]) - ALLOWED_AXIOMS)])
    if tier == "thorough":
        mods = [t for t in targets if t.startswith("TallyProofs.")]
        for mname in mods:
            rc, out, _ = run(["lake", "env", "leanchecker", mname], cwd=LEAN, timeout=1200)
            res["leanchecker"] = "ok" if rc == 0 else out[-400:]
            if rc != 0:
                res["ok"] = False
                res["broken"].append("leanchecker rejected " + mname)
    return res


HARNESS_DIR, HARNESS_TMP = None, None


def build_harness():
    hdir = os.path.join(VERIF, "harness")
    tmp = None
    if REPO != "/repo":
        # scratch evaluation: same harness sources, module replaced by the scratch tree
        import tempfile
        tmp = tempfile.mkdtemp(prefix="verif-harness-")
        for f in os.listdir(hdir):
            src = os.path.join(hdir, f)
            if os.path.isdir(src):
                shutil.copytree(src, os.path.join(tmp, f))
            else:
                shutil.copy(src, tmp)
        gm = open(os.path.join(tmp, "go.mod")).read().replace("=> /repo", "=> " + REPO)
        open(os.path.join(tmp, "go.mod"), "w").write(gm)
        hdir = tmp
    shutil.copyfile(os.path.join(REPO, "go.sum"), os.path.join(hdir, "go.sum"))
    out_bin = os.path.join(BIN, "harness.%d" % os.getpid())
    if os.path.exists(out_bin):
        os.remove(out_bin)
    rc, out, dt = run(["go", "build", "-tags", "verif", "-o", out_bin, "."], cwd=hdir, env=GOENV, timeout=600)
    # suites that build a second binary themselves (the race-detector test packages) must use the same sources and the
    # same module replacement: the directory is kept until the suites have run (removed in main's finally)
    global HARNESS_DIR, HARNESS_TMP
    HARNESS_DIR, HARNESS_TMP = hdir, tmp
    return rc, out, out_bin


def run_suite(hbin, suite, seed, tier, scale=1, timeout=600, extra_env=None):
    cov_path = os.path.join(BIN, "cov.%s.%d.json" % (suite, os.getpid()))
    if os.path.exists(cov_path):
        os.remove(cov_path)
    env = dict(GOENV, TALLYDRV=os.path.join(LEAN, ".lake", "build", "bin", "tallydrv"), GOMEMLIMIT="6GiB")
    if HARNESS_DIR:
        env["VERIF_HARNESS_DIR"] = HARNESS_DIR
    if extra_env:
        env.update(extra_env)
    cmd = [hbin, "-seed", str(seed), "-tier", tier, "-scale", str(scale), "-out", cov_path, suite]
    rc, out, dt = run(cmd, cwd=VERIF, env=env, timeout=timeout)
    cov = None
    if os.path.exists(cov_path):
        try:
            cov = json.load(open(cov_path))
        except Exception:
            cov = None
        os.remove(cov_path)
    return rc, out, cov, dt


def library_crash(out):
    """If the harness process died with a Go panic / fatal error whose dying goroutine has library frames above the
    harness's own, return {"what": first line, "stack": excerpt}; else None."""
    m = re.search(r"^(panic: .*|fatal error: .*)$", out, re.M)
    if not m:
        return None
    tail = out[m.start():]
    # first goroutine block after the message
    g = re.search(r"^goroutine \d+ .*?:\n(.*?)(?:\n\n|\Z)", tail, re.M | re.S)
    block = g.group(1) if g else tail[:4000]
    frames = [l for l in block.splitlines() if l and not l.startswith("\t")]
    lib_idx = [i for i, l in enumerate(frames) if "github.com/uber-go/tally/v4" in l]
    if not lib_idx:
        return None
    return {"what": m.group(1)[:300], "stack": tail[:2500]}


def load_known():
    p = os.path.join(VERIF, "known_findings.json")
    if not os.path.exists(p):
        return []
    return json.load(open(p)).get("findings", [])


def match_known(prop, f, known):
    for k in known:
        if k.get("status") != "open" or k.get("property") != prop:
            continue
        if k.get("signature") == f.get("signature") and (not k.get("clause") or k.get("clause") == f.get("clause")):
            return k
    return None


def main():
    if len(sys.argv) < 3:
        print(__doc__)
        sys.exit(2)
    prop = sys.argv[1]
    replay = None
    if sys.argv[2] == "--replay":
        replay = json.load(open(sys.argv[3]))
        tier = replay.get("tier", "quick")
        seed = int(replay.get("seed", 1))
    else:
        tier = sys.argv[2]
        seed = int(os.environ.get("VERIF_SEED", "1") or "1")
    if tier not in ("quick", "thorough"):
        tier = os.environ.get("VERIF_TIER", "quick")
    if prop not in PROPS:
        log("unknown property " + prop)
        sys.exit(2)
    cfg = PROPS[prop]
    t0 = time.time()
    os.makedirs(os.path.join(VERIF, "evidence"), exist_ok=True)
    os.makedirs(os.path.join(VERIF, "replays"), exist_ok=True)
    ev_path = os.path.join(VERIF, "evidence", prop + ".json")

    with Lock("lean"):
        facts = regen_facts()
        lean = lean_stage(prop, tier)
    with Lock("go"):
        rc, bout, hbin = build_harness()
    if rc != 0:
        # the harness no longer compiles against the tree: shims or API changed. Not a verdict we can give.
        log("harness build failed:\n" + bout[-3000:])
        verdicts = [("VIOLATION", "harness-build", {"kind": "build", "detail": bout[-1500:]})]
        write_and_exit(prop, tier, seed, t0, lean, [], verdicts, cfg, ev_path, [], build_failed=True)

    known = load_known()
    covs = []
    failures = []
    crashed = []
    suites = cfg["suites"] if not replay else [replay["suite"]]
    try:
        for s in suites:
            tmo = cfg.get("timeout", {}).get(tier, 300 if tier == "quick" else 3000)
            rc, out, cov, dt = run_suite(hbin, s, seed, tier, timeout=tmo)
            log("[%s] suite %s rc=%d %.1fs %s" % (prop, s, rc, dt, out.strip().splitlines()[0] if out.strip() else ""))
            if cov is None:
                lib = library_crash(out)
                if lib:
                    # the process died inside the library (unrecovered panic or a runtime fatal error such as a concurrent
                    # map access, frames of github.com/uber-go/tally on the dying goroutine's stack): the suite, seed and
                    # tier are a replay, so this is a concrete failing input, not merely a broken correspondence.  It is
                    # run once more to make sure it is not a one-off of the machine.
                    rc2, out2, cov2, dt2 = run_suite(hbin, s, seed, tier, timeout=tmo)
                    lib2 = library_crash(out2) if cov2 is None else None
                    if lib2:
                        failures.append({"kind": "crash", "clause": "no-crash", "signature": "suite-%s-dies-in-library:%s" % (s, lib["what"][:80]),
                                         "line": "suite %s seed %d tier %s (whole run; the process dies)" % (s, seed, tier), "reply": lib["what"],
                                         "detail": lib["stack"], "suite": s, "reproduced": lib2["what"]})
                        continue
                crashed.append({"suite": s, "rc": rc, "out": out[-3000:]})
                continue
            covs.append(cov)
            for f in cov.get("failures", []):
                f["suite"] = s
                failures.append(f)
        # ---- search stage (DESIGN 3.6): something broke but no concrete violation yet
        concrete = [f for f in failures if f["kind"] in ("violated", "crash")]
        broken = (not lean["ok"]) or any(f["kind"] == "differ" for f in failures) or crashed
        search_note = None
        if broken and not concrete and not replay:
            # bounded search (DESIGN 3.6): further seeds with more cases, at most ~4 minutes in total
            search_note = "search: re-running suites with 4x cases on 2 further seeds (time-boxed)"
            log(search_note)
            t_search = time.time()
            for k in range(2):
                for s in suites:
                    left = 240 - (time.time() - t_search)
                    if left < 20:
                        break
                    rc, out, cov, dt = run_suite(hbin, s, seed * 7919 + 104729 * (k + 1), tier, scale=4, timeout=min(150, left))
                    if cov is None:
                        continue
                    for f in cov.get("failures", []):
                        f["suite"] = s
                        f["found_by"] = "search seed=%d scale=4" % (seed * 7919 + 104729 * (k + 1))
                        if f["kind"] in ("violated", "crash"):
                            concrete.append(f)
                            failures.append(f)
                if concrete:
                    break
    finally:
        if os.path.exists(hbin):
            os.remove(hbin)
        if HARNESS_TMP:
            shutil.rmtree(HARNESS_TMP, ignore_errors=True)

    verdicts = []  # (VIOLATION|KNOWN, name, payload)
    seen_sig = set()
    for f in failures:
        if f["kind"] not in ("violated", "crash"):
            continue
        key = (f.get("clause"), f.get("signature"))
        if key in seen_sig:
            continue
        seen_sig.add(key)
        k = match_known(prop, f, known)
        if k:
            verdicts.append(("KNOWN", k["what"], f))
        else:
            verdicts.append(("VIOLATION", "%s/%s" % key, f))
    has_concrete_unknown = any(v[0] == "VIOLATION" for v in verdicts)
    if not has_concrete_unknown:
        # broken obligations / correspondence without a concrete new violation
        reasons = []
        if not lean["ok"]:
            reasons += ["proof obligation: " + b for b in lean["broken"]]
        differs = [f for f in failures if f["kind"] == "differ"]
        # a disagreement that coincides with a known finding's signature is explained by it
        differs = [f for f in differs if not match_known(prop, f, known)]
        if differs:
            reasons.append("correspondence: model and implementation differ on %d case(s), e.g. %s => %s" % (len(differs), differs[0]["line"][:300], differs[0]["reply"][:200]))
        badops = [f for f in failures if f["kind"] == "bad-op"]
        if badops:
            reasons.append("protocol: driver rejected %d line(s), e.g. %s => %s" % (len(badops), badops[0]["line"][:200], badops[0]["reply"]))
        for c in crashed:
            reasons.append("suite %s crashed or timed out (rc=%s): %s" % (c["suite"], c["rc"], c["out"][-600:]))
        if reasons:
            verdicts.append(("VIOLATION-NOINPUT", "; ".join(r[:160] for r in reasons)[:400], {"kind": "no-failing-input-found", "broken": reasons, "failures": differs[:5] + badops[:5]}))
    write_and_exit(prop, tier, seed, t0, lean, covs, verdicts, cfg, ev_path, failures)


def write_and_exit(prop, tier, seed, t0, lean, covs, verdicts, cfg, ev_path, failures, build_failed=False):
    n_viol = 0
    lines = []
    for i, (kind, name, payload) in enumerate(verdicts):
        if kind == "KNOWN":
            lines.append("KNOWN-FINDING: property=%s %s" % (prop, name))
            continue
        n_viol += 1
        rp = os.path.join(VERIF, "replays", "%s-%s-%d-%d.json" % (prop, tier, seed, i))
        suite = payload.get("suite") or (cfg["suites"][0] if cfg["suites"] else "")
        json.dump({"property": prop, "tier": tier, "seed": seed, "suite": suite, "what": name, "payload": payload,
                   "how_to_replay": "./check %s --replay %s  (re-runs suite %s with the same seed against /repo; every random choice derives from the seed)" % (prop, rp, suite)},
                  open(rp, "w"), indent=1)
        if kind == "VIOLATION-NOINPUT":
            lines.append("VIOLATION property=%s replay=%s no-failing-input-found" % (prop, rp))
        else:
            lines.append("VIOLATION property=%s replay=%s" % (prop, rp))
    # ---- evidence
    cov = {
        "obligations": lean["obligations"],
        "discharged": lean["discharged"],
        "checker_cmd": "cd /verif/lean && lake build TallyProofs.Tie.%s TallyProofs.Props.%s && lake env lean .lake/audit/%s.lean%s" % (prop, prop, prop, " && lake env leanchecker TallyProofs.Props.%s" % prop if tier == "thorough" else ""),
        "trusted_base": cfg.get("trusted_base", []) + [
            "Lean 4.33.0 kernel" + (" (re-checked by leanchecker: %s)" % lean.get("leanchecker") if tier == "thorough" else ""),
            "axioms used by the theorems of this property: " + ", ".join(sorted({a for v in lean["axioms"].values() for a in v}) or ["none"]),
            "tools/factgen (go/ast fact extractor) and the rfl tie theorems in TallyProofs/Tie/%s.lean" % prop,
            "harness (Go, -tags verif, in-process implementation) + tallydrv (compiled Lean model/spec) as differential correspondence and oracle",
        ],
        "theorems": lean["axioms"],
        "broken_obligations": lean["broken"],
        "evaluations": sum(c.get("evaluations", 0) for c in covs),
        "distinct_nontrivial": sum(c.get("distinct_nontrivial", 0) for c in covs),
        "rule": " || ".join("%s: %s" % (c["suite"], c.get("rule", "")) for c in covs),
        "samples": [s for c in covs for s in c.get("samples", [])][:12] or ["(no case ran)"],
        "traces_validated_against_impl": sum(c.get("traces_validated_against_impl", 0) for c in covs),
        "schedules": sum(c.get("schedules", 0) for c in covs),
        "exhaustive": bool(covs) and all(c.get("exhaustive") for c in covs),
        "distribution": {c["suite"]: c.get("distribution", {}) for c in covs},
        "suite_wall_s": {c["suite"]: c.get("wall_s") for c in covs},
        "notes": [n for c in covs for n in c.get("notes", [])],
        "verdict_lines": lines,
    }
    ev = {
        "property_id": prop, "tier": tier, "seed": seed, "level": "proof", "coverage": cov,
        "assumptions": cfg.get("assumptions", []),
        "wall_s": round(time.time() - t0, 2), "violations": n_viol,
    }
    tmp = ev_path + ".tmp"
    json.dump(ev, open(tmp, "w"), indent=1)
    os.replace(tmp, ev_path)
    for l in lines:
        print(l)
    print("%s %s: obligations %d/%d, evaluations %d, distinct nontrivial %d, violations %d, %.1fs" % (
        prop, tier, lean["discharged"], lean["obligations"], cov["evaluations"], cov["distinct_nontrivial"], n_viol, time.time() - t0))
    sys.exit(1 if n_viol else 0)


if __name__ == "__main__":
    main()
