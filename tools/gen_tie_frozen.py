#!/usr/bin/env python3
"""gen_tie_frozen.py <Cxx> [<prefix>…]   (fact names / prefixes per property: tools/frozen_map.py)

Development helper (NOT run by the checks): writes TallyProofs/Tie/<Cxx>Frozen.lean with one `rfl` theorem per fact
of lean/Tally/Generated/Facts.lean whose name starts with one of the prefixes, freezing its CURRENT value.  Used once
when a hand-written model is (re-)baselined against the bodies it mirrors; from then on any edit of those bodies in
/repo changes the regenerated fact and breaks the frozen theorem (a broken tie; the check then searches for an input)."""
import os, re, sys
VERIF = os.path.dirname(os.path.dirname(os.path.abspath(__file__)))
sys.path.insert(0, os.path.dirname(os.path.abspath(__file__)))
from frozen_map import FROZEN, PREFIXES
prop, prefixes = sys.argv[1], sys.argv[2:] or PREFIXES.get(sys.argv[1], [])
exact = set(FROZEN.get(prop, []))
facts = open(os.path.join(VERIF, "lean", "Tally", "Generated", "Facts.lean")).read()
out = ["import Tally.Generated.Facts",
       "/-! Frozen bodies for %s (generated once by tools/gen_tie_frozen.py from the source the model was written" % prop,
       "against; re-proved against the facts regenerated from /repo on every run). -/",
       "namespace Tally.Tie.%sFrozen" % prop, "open Tally", ""]
n = 0
for m in re.finditer(r"^def (\w+) : List String := (\[.*?\])\n\n", facts, re.M | re.S):
    name, val = m.group(1), m.group(2)
    if not any(name.startswith(p) for p in prefixes) and name not in exact:
        continue
    exact.discard(name)
    out.append("theorem %s_unchanged : Facts.%s = %s := rfl\n" % (name, name, val))
    n += 1
out.append("end Tally.Tie.%sFrozen" % prop)
p = os.path.join(VERIF, "lean", "TallyProofs", "Tie", prop + "Frozen.lean")
open(p, "w").write("\n".join(out) + "\n")
print("wrote", p, n, "theorems")
if exact:
    print("NOT FOUND in Facts.lean:", sorted(exact)); sys.exit(1)
